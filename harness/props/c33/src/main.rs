//! C33 Pipelines are only placed on available workers and failures are detected.
//!
//! Real code: `Coordinator::{register_worker, heartbeat, deregister_worker, health_sweep,
//! plan_deploy_group, commit_deploy_group, plan_migrate_pipeline, commit_migrate_pipeline,
//! handle_worker_failure, drain_worker, rebalance}` over the unmodified `Instant` clock,
//! virtualised by vh-clock.  Composite operations talk to an in-process mock worker.
//!
//! Oracle: reference model of (status, last heartbeat) per worker on the virtual clock.
//! After every step the real statuses must equal the model's (Ready -> Unhealthy exactly at the
//! first sweep with age > timeout, heartbeat restores Ready); every new or changed placement
//! must sit on a worker the model calls available at that moment; a pinned pipeline is deployed
//! on its pinned worker whenever the model calls that worker available.
use proptest::prelude::*;
use serde::{Deserialize, Serialize};
use std::collections::{BTreeMap, BTreeSet};
use std::sync::atomic::{AtomicU64, Ordering};
use std::sync::Arc;
use std::time::{Duration, Instant};
use vh_common::{Check, Outcome};
use vh_server::varpulis_cluster as vc;
use vc::coordinator::{DeployResponse, DeployTaskResult};
use vc::{Coordinator, HeartbeatRequest, MigrationReason, PipelineDeploymentStatus, PipelineGroupSpec, PipelinePlacement, WorkerId, WorkerNode, WorkerStatus};
use warp::Filter;

vh_clock::install!();

// ------------------------------------------------------------------ case

#[derive(Clone, Debug, Serialize, Deserialize)]
struct PipeReq {
    affinity: Option<usize>,
    replicas: usize,
}

#[derive(Clone, Debug, Serialize, Deserialize)]
enum Step {
    Register { w: usize, cores: usize, max: usize },
    Deregister { w: usize },
    Heartbeat { w: usize },
    Advance { secs: u64 },
    Sweep { failover: bool },
    SetDraining { w: usize },
    SetUnhealthy { w: usize, failover: bool },
    Deploy { pipes: Vec<PipeReq> },
    Migrate { which: usize, target: usize },
    Drain { w: usize },
    Rebalance,
}

#[derive(Clone, Debug, Serialize, Deserialize)]
struct Case {
    workers: usize,
    /// heartbeat timeout = timeout_s + 0.5 s; the clock only advances in whole seconds, so no age
    /// is ever within 400 ms of the timeout
    timeout_s: u64,
    steps: Vec<Step>,
}

fn strat() -> impl Strategy<Value = Case> {
    (1usize..=4, prop_oneof![Just(2u64), Just(5), Just(15)]).prop_flat_map(|(workers, timeout_s)| {
        let w = 0..workers;
        let pipe = (prop_oneof![2 => Just(None), 3 => (0..workers).prop_map(Some)], 1usize..=3).prop_map(|(affinity, replicas)| PipeReq { affinity, replicas });
        let t = timeout_s;
        let step = prop_oneof![
            3 => (w.clone(), 1usize..=4, prop_oneof![3 => Just(100usize), 1 => 1usize..=3]).prop_map(|(w, cores, max)| Step::Register { w, cores, max }),
            1 => w.clone().prop_map(|w| Step::Deregister { w }),
            5 => w.clone().prop_map(|w| Step::Heartbeat { w }),
            // advances cluster around the timeout so that ages land on T-1, T, T+1
            6 => prop_oneof![3 => 1u64..=3, 2 => (t.saturating_sub(1).max(1))..=(t + 1), 1 => 1u64..=20].prop_map(|secs| Step::Advance { secs }),
            6 => prop_oneof![3 => Just(false), 1 => Just(true)].prop_map(|failover| Step::Sweep { failover }),
            1 => w.clone().prop_map(|w| Step::SetDraining { w }),
            1 => (w.clone(), any::<bool>()).prop_map(|(w, failover)| Step::SetUnhealthy { w, failover }),
            5 => prop::collection::vec(pipe, 1..=3).prop_map(|pipes| Step::Deploy { pipes }),
            2 => (0usize..8, w.clone()).prop_map(|(which, target)| Step::Migrate { which, target }),
            1 => w.clone().prop_map(|w| Step::Drain { w }),
            1 => Just(Step::Rebalance),
        ];
        (Just(workers), Just(timeout_s), prop::collection::vec(step, 4..=40)).prop_map(|(workers, timeout_s, mut steps)| {
            // every history starts with all workers registered (otherwise most prefixes are empty clusters)
            let mut pre: Vec<Step> = (0..workers).map(|w| Step::Register { w, cores: 1 + w % 2, max: 100 }).collect();
            pre.append(&mut steps);
            Case { workers, timeout_s, steps: pre }
        })
    })
}

// ------------------------------------------------------------------ model

#[derive(Clone, Copy, Debug, PartialEq, Eq)]
enum MStatus {
    Ready,
    Unhealthy,
    Draining,
}

#[derive(Clone, Copy, Debug)]
struct MWorker {
    status: MStatus,
    last_hb_s: u64,
}

fn real_status(s: &WorkerStatus) -> &'static str {
    match s {
        WorkerStatus::Registering => "registering",
        WorkerStatus::Ready => "ready",
        WorkerStatus::Unhealthy => "unhealthy",
        WorkerStatus::Draining => "draining",
    }
}
fn model_status(s: MStatus) -> &'static str {
    match s {
        MStatus::Ready => "ready",
        MStatus::Unhealthy => "unhealthy",
        MStatus::Draining => "draining",
    }
}

// ------------------------------------------------------------------ mock worker

struct Env {
    rt: tokio::runtime::Runtime,
    addr: String,
    next_pid: Arc<AtomicU64>,
}

impl Env {
    fn new() -> Env {
        let rt = tokio::runtime::Builder::new_current_thread().enable_all().build().expect("runtime");
        let next_pid = Arc::new(AtomicU64::new(0));
        let np = next_pid.clone();
        let routes = warp::any().and(warp::method()).and(warp::path::full()).and(warp::body::bytes()).map(move |m: warp::http::Method, p: warp::path::FullPath, b: warp::hyper::body::Bytes| {
            if m == warp::http::Method::POST && p.as_str().ends_with("/api/v1/pipelines") {
                let body: serde_json::Value = serde_json::from_slice(&b).unwrap_or(serde_json::Value::Null);
                let id = np.fetch_add(1, Ordering::SeqCst);
                warp::reply::json(&serde_json::json!({"id": format!("m{}", id), "name": body["name"], "status": "running"}))
            } else {
                warp::reply::json(&serde_json::json!({}))
            }
        });
        let addr = {
            let _g = rt.enter();
            let (addr, fut) = warp::serve(routes).bind_ephemeral(([127, 0, 0, 1], 0));
            rt.spawn(fut);
            addr
        };
        Env { rt, addr: format!("http://{}", addr), next_pid }
    }
}

thread_local! {
    static ENV: Env = Env::new();
}

// ------------------------------------------------------------------ run

fn wid(w: usize) -> WorkerId {
    WorkerId(format!("w{}", w))
}

type Placements = BTreeMap<(String, String), (String, String, u64, bool)>; // (group, replica) -> (worker, pipeline_id, epoch, running)

fn snapshot(coord: &Coordinator) -> Placements {
    let mut m = BTreeMap::new();
    for (gid, g) in &coord.pipeline_groups {
        for (name, d) in &g.placements {
            m.insert((gid.clone(), name.clone()), (d.worker_id.0.clone(), d.pipeline_id.clone(), d.epoch, d.status == PipelineDeploymentStatus::Running));
        }
    }
    m
}

struct World {
    coord: Coordinator,
    model: Vec<Option<MWorker>>,
    now_s: u64,
    timeout_s: u64,
    groups: Vec<String>,
}

impl World {
    /// availability at this moment according to the model (status) and the capacity numbers
    fn avail(&self, w: usize) -> bool {
        match self.model.get(w).copied().flatten() {
            Some(m) if m.status == MStatus::Ready => self.coord.workers.get(&wid(w)).map(|n| n.capacity.pipelines_running < n.capacity.max_pipelines).unwrap_or(false),
            _ => false,
        }
    }
    /// workers that are registered and Ready in the model (the statement's "not unhealthy, draining or deregistered")
    fn ready_set(&self) -> BTreeSet<String> {
        (0..self.model.len()).filter(|w| matches!(self.model[*w], Some(m) if m.status == MStatus::Ready)).map(|w| wid(w).0).collect()
    }
    fn avail_set(&self) -> BTreeSet<String> {
        (0..self.model.len()).filter(|w| self.avail(*w)).map(|w| wid(w).0).collect()
    }
    fn why_unavailable(&self, worker: &str) -> &'static str {
        let w: usize = worker.trim_start_matches('w').parse().unwrap_or(usize::MAX);
        match self.model.get(w).copied().flatten() {
            None => "deregistered",
            Some(m) => match m.status {
                MStatus::Unhealthy => "unhealthy",
                MStatus::Draining => "draining",
                MStatus::Ready => "ready",
            },
        }
    }
    fn compare_status(&self, step: &str) -> Result<(), Outcome> {
        for w in 0..self.model.len() {
            let real = self.coord.workers.get(&wid(w));
            match (real, self.model[w]) {
                (None, None) => {}
                (Some(r), Some(m)) => {
                    if real_status(&r.status) != model_status(m.status) {
                        return Err(Outcome::fail(
                            format!("status-mismatch:{}:real-{}-model-{}", step, real_status(&r.status), model_status(m.status)),
                            format!("worker w{} at t={}s (last heartbeat t={}s, timeout {}.5s): real {} model {}", w, self.now_s, m.last_hb_s, self.timeout_s, real_status(&r.status), model_status(m.status)),
                        ));
                    }
                }
                (r, m) => {
                    return Err(Outcome::fail(format!("registration-mismatch:{}", step), format!("worker w{}: real registered={} model registered={}", w, r.is_some(), m.is_some())));
                }
            }
        }
        Ok(())
    }
    /// every placement that is new or changed since `before` and Running must be on a worker that was available
    fn check_new_placements(&self, before: &Placements, avail: &BTreeSet<String>, op: &str) -> Result<usize, Outcome> {
        let after = snapshot(&self.coord);
        let mut n = 0;
        for (k, v) in &after {
            if !v.3 {
                continue;
            }
            if before.get(k) != Some(v) {
                n += 1;
                if !avail.contains(&v.0) {
                    return Err(Outcome::fail(
                        format!("placed-on-unavailable-worker:{}:{}", op, self.why_unavailable(&v.0)),
                        format!("{} placed {}/{} on {} ({}); ready workers were {:?}", op, k.0, k.1, v.0, self.why_unavailable(&v.0), avail),
                    ));
                }
            }
        }
        Ok(n)
    }
}

fn run(case: &Case) -> Outcome {
    ENV.with(|env| run_in(env, case))
}

fn run_in(env: &Env, case: &Case) -> Outcome {
    let wall0 = Instant::now();
    let virt0 = vh_clock::offset();
    let mut wd = World { coord: Coordinator::new(), model: vec![None; case.workers], now_s: 0, timeout_s: case.timeout_s, groups: vec![] };
    wd.coord.heartbeat_timeout = Duration::from_millis(case.timeout_s * 1000 + 500);
    let mut boundary_sweeps = 0usize;
    let mut placements_with_unavailable = 0usize;
    let mut marked_total = 0usize;
    let mut recovered = 0usize;
    let mut pinned_honoured = 0usize;
    let mut pinned_fallback = 0usize;
    let mut migrations = 0usize;
    let mut composite_moves = 0usize;
    let mut rejected_unavailable_target = 0usize;
    let mut group_no = 0usize;

    for step in &case.steps {
        let any_unavail = (0..case.workers).any(|w| wd.model[w].is_some() && !wd.avail(w)) || wd.model.iter().any(|m| m.is_none());
        match step {
            Step::Register { w, cores, max } => {
                let mut node = WorkerNode::new(wid(*w), format!("{}/w{}", env.addr, w), "key".into());
                node.capacity.cpu_cores = *cores;
                node.capacity.max_pipelines = *max;
                wd.coord.register_worker(node);
                wd.model[*w] = Some(MWorker { status: MStatus::Ready, last_hb_s: wd.now_s });
            }
            Step::Deregister { w } => {
                let r = wd.coord.deregister_worker(&wid(*w));
                if r.is_ok() != wd.model[*w].is_some() {
                    return Outcome::fail("deregister-result-mismatch", format!("w{}: {:?}", w, r.map_err(|e| e.to_string())));
                }
                wd.model[*w] = None;
            }
            Step::Heartbeat { w } => {
                let running = wd.coord.workers.get(&wid(*w)).map(|n| n.capacity.pipelines_running).unwrap_or(0);
                let r = wd.coord.heartbeat(&wid(*w), &HeartbeatRequest { events_processed: 0, pipelines_running: running, pipeline_metrics: vec![] });
                if r.is_ok() != wd.model[*w].is_some() {
                    return Outcome::fail("heartbeat-result-mismatch", format!("w{}: {:?}", w, r.map_err(|e| e.to_string())));
                }
                if let Some(m) = wd.model[*w].as_mut() {
                    m.last_hb_s = wd.now_s;
                    if m.status == MStatus::Unhealthy {
                        m.status = MStatus::Ready;
                        recovered += 1;
                    }
                }
            }
            Step::Advance { secs } => {
                vh_clock::advance(Duration::from_secs(*secs));
                wd.now_s += secs;
            }
            Step::Sweep { failover } => {
                let mut expect: BTreeSet<String> = BTreeSet::new();
                for w in 0..case.workers {
                    if let Some(m) = wd.model[w].as_mut() {
                        let age = wd.now_s - m.last_hb_s;
                        if m.status == MStatus::Ready {
                            if age == wd.timeout_s || age == wd.timeout_s + 1 {
                                boundary_sweeps += 1;
                            }
                            // timeout is timeout_s + 0.5 s, ages are whole seconds
                            if age > wd.timeout_s {
                                m.status = MStatus::Unhealthy;
                                expect.insert(wid(w).0);
                            }
                        }
                    }
                }
                let res = wd.coord.health_sweep();
                let got: BTreeSet<String> = res.workers_marked_unhealthy.iter().map(|w| w.0.clone()).collect();
                if got != expect {
                    let early = got.difference(&expect).next().is_some();
                    return Outcome::fail(
                        if early { "sweep-marked-too-early-or-wrong-worker" } else { "sweep-missed-expired-worker" },
                        format!("t={}s timeout {}.5s: sweep marked {:?}, model expects {:?}; model {:?}", wd.now_s, wd.timeout_s, got, expect, wd.model),
                    );
                }
                marked_total += got.len();
                if *failover {
                    // what the coordinator's sweep loop does next
                    for w in &expect {
                        let before = snapshot(&wd.coord);
                        let avail = wd.ready_set();
                        let _ = env.rt.block_on(wd.coord.handle_worker_failure(&WorkerId(w.clone())));
                        match wd.check_new_placements(&before, &avail, "failover") {
                            Ok(n) => {
                                composite_moves += n;
                                if n > 0 && any_unavail {
                                    placements_with_unavailable += 1;
                                }
                            }
                            Err(o) => return o,
                        }
                    }
                }
            }
            Step::SetDraining { w } => {
                // the status a follower/leader adopts from replicated state (sync_from_raft)
                if let Some(n) = wd.coord.workers.get_mut(&wid(*w)) {
                    n.status = WorkerStatus::Draining;
                    wd.model[*w].as_mut().unwrap().status = MStatus::Draining;
                }
            }
            Step::SetUnhealthy { w, failover } => {
                // what the k8s pod watcher does: Ready -> Unhealthy, then failover
                let mut do_failover = false;
                if let Some(n) = wd.coord.workers.get_mut(&wid(*w)) {
                    if n.status == WorkerStatus::Ready {
                        n.status = WorkerStatus::Unhealthy;
                        do_failover = *failover;
                    }
                }
                if let Some(m) = wd.model[*w].as_mut() {
                    if m.status == MStatus::Ready {
                        m.status = MStatus::Unhealthy;
                    }
                }
                if do_failover {
                    let before = snapshot(&wd.coord);
                    let avail = wd.ready_set();
                    let _ = env.rt.block_on(wd.coord.handle_worker_failure(&wid(*w)));
                    match wd.check_new_placements(&before, &avail, "failover") {
                        Ok(n) => {
                            composite_moves += n;
                            if n > 0 {
                                placements_with_unavailable += 1;
                            }
                        }
                        Err(o) => return o,
                    }
                }
            }
            Step::Deploy { pipes } => {
                group_no += 1;
                let spec = PipelineGroupSpec {
                    name: format!("g{}", group_no),
                    pipelines: pipes
                        .iter()
                        .enumerate()
                        .map(|(i, p)| PipelinePlacement { name: format!("g{}p{}", group_no, i), source: "stream S = X".into(), worker_affinity: p.affinity.map(|a| wid(a).0), replicas: p.replicas, partition_key: None })
                        .collect(),
                    routes: vec![],
                };
                let avail = wd.avail_set();
                let ready = wd.ready_set();
                match wd.coord.plan_deploy_group(&spec) {
                    Err(e) => {
                        if !avail.is_empty() {
                            return Outcome::fail("deploy-refused-although-workers-available", format!("{}; available {:?}", e, avail));
                        }
                    }
                    Ok(plan) => {
                        for t in &plan.tasks {
                            if !ready.contains(&t.worker_id.0) {
                                return Outcome::fail(
                                    format!("placed-on-unavailable-worker:deploy:{}", wd.why_unavailable(&t.worker_id.0)),
                                    format!("deploy placed {} on {} ({}); ready {:?}", t.replica_name, t.worker_id, wd.why_unavailable(&t.worker_id.0), ready),
                                );
                            }
                            let pi: usize = t.pipeline_name.rsplit('p').next().unwrap().parse().unwrap();
                            if let Some(a) = pipes[pi].affinity {
                                if avail.contains(&wid(a).0) {
                                    if t.worker_id != wid(a) {
                                        return Outcome::fail("pinned-pipeline-not-on-its-available-worker", format!("{} pinned to w{} (available) but placed on {}", t.replica_name, a, t.worker_id));
                                    }
                                    pinned_honoured += 1;
                                } else {
                                    pinned_fallback += 1;
                                }
                            }
                        }
                        if any_unavail {
                            placements_with_unavailable += 1;
                        }
                        let results: Vec<DeployTaskResult> = plan
                            .tasks
                            .iter()
                            .map(|t| DeployTaskResult {
                                replica_name: t.replica_name.clone(),
                                pipeline_name: t.pipeline_name.clone(),
                                worker_id: t.worker_id.clone(),
                                worker_address: t.worker_address.clone(),
                                worker_api_key: t.worker_api_key.clone(),
                                replica_count: t.replica_count,
                                outcome: Ok(DeployResponse { id: format!("m{}", env.next_pid.fetch_add(1, Ordering::SeqCst)), name: t.replica_name.clone(), status: "running".into() }),
                            })
                            .collect();
                        let gid = wd.coord.commit_deploy_group(plan, results).expect("commit");
                        wd.groups.push(gid);
                    }
                }
            }
            Step::Migrate { which, target } => {
                // manual migration as the REST handler does it: plan -> (execute) -> commit
                let snap = snapshot(&wd.coord);
                let running: Vec<_> = snap.iter().filter(|(_, v)| v.3).collect();
                if running.is_empty() {
                    continue;
                }
                let ((gid, name), _) = running[which % running.len()];
                let avail = wd.ready_set();
                match wd.coord.plan_migrate_pipeline(name, gid, &wid(*target), MigrationReason::Manual) {
                    Err(_) => {
                        if !avail.contains(&wid(*target).0) {
                            rejected_unavailable_target += 1;
                        }
                    }
                    Ok(plan) => {
                        let new_id = format!("m{}", env.next_pid.fetch_add(1, Ordering::SeqCst));
                        wd.coord.commit_migrate_pipeline(&plan, &new_id, true, None);
                        match wd.check_new_placements(&snap, &avail, "manual-migrate") {
                            Ok(n) => {
                                migrations += n;
                                if any_unavail {
                                    placements_with_unavailable += 1;
                                }
                            }
                            Err(o) => return o,
                        }
                    }
                }
            }
            Step::Drain { w } => {
                let before = snapshot(&wd.coord);
                // during the drain the worker itself is Draining, i.e. unavailable
                let mut avail = wd.ready_set();
                avail.remove(&wid(*w).0);
                let was_draining = wd.model[*w].map(|m| m.status == MStatus::Draining).unwrap_or(false);
                let r = env.rt.block_on(wd.coord.drain_worker(&wid(*w), None));
                if r.is_ok() != wd.model[*w].is_some() {
                    return Outcome::fail("drain-result-mismatch", format!("w{}: {:?}", w, r.map_err(|e| e.to_string())));
                }
                if !was_draining {
                    // drained workers are deregistered at the end (an already draining worker is left alone)
                    wd.model[*w] = None;
                }
                match wd.check_new_placements(&before, &avail, "drain") {
                    Ok(n) => {
                        composite_moves += n;
                        if n > 0 {
                            placements_with_unavailable += 1;
                        }
                    }
                    Err(o) => return o,
                }
            }
            Step::Rebalance => {
                let before = snapshot(&wd.coord);
                let avail = wd.ready_set();
                let _ = env.rt.block_on(wd.coord.rebalance());
                match wd.check_new_placements(&before, &avail, "rebalance") {
                    Ok(n) => {
                        composite_moves += n;
                        if n > 0 && any_unavail {
                            placements_with_unavailable += 1;
                        }
                    }
                    Err(o) => return o,
                }
            }
        }
        let kind = match step {
            Step::Register { .. } => "register",
            Step::Deregister { .. } => "deregister",
            Step::Heartbeat { .. } => "heartbeat",
            Step::Advance { .. } => "advance",
            Step::Sweep { .. } => "sweep",
            Step::SetDraining { .. } => "set-draining",
            Step::SetUnhealthy { .. } => "set-unhealthy",
            Step::Deploy { .. } => "deploy",
            Step::Migrate { .. } => "migrate",
            Step::Drain { .. } => "drain",
            Step::Rebalance => "rebalance",
        };
        if let Err(o) = wd.compare_status(kind) {
            return o;
        }
    }
    // real time that leaked into the ages must stay far below the 400 ms margin
    let real = wall0.elapsed().saturating_sub(vh_clock::offset() - virt0);
    if real > Duration::from_millis(250) {
        return Outcome::discard("case-took-too-long-for-the-timing-margin");
    }
    Outcome::pass()
        .nontrivial(boundary_sweeps > 0 || placements_with_unavailable > 0)
        .class_if(boundary_sweeps > 0, "sweep_at_timeout_boundary")
        .class_if(placements_with_unavailable > 0, "placement_while_some_worker_unavailable")
        .class_if(marked_total > 0, "sweep_marked_unhealthy")
        .class_if(recovered > 0, "heartbeat_recovered_worker")
        .class_if(pinned_honoured > 0, "pinned_to_available_worker")
        .class_if(pinned_fallback > 0, "pinned_worker_unavailable_fallback")
        .class_if(migrations > 0, "manual_migration_committed")
        .class_if(rejected_unavailable_target > 0, "manual_migration_to_unavailable_target_rejected")
        .class_if(composite_moves > 0, "failover_drain_rebalance_moved_pipelines")
        .class(format!("timeout={}.5s", case.timeout_s))
}

fn main() {
    let check = Check::new("C33", "exploration");
    // on a scratch thread: the offset is per thread, the main thread's clock (wall time of the run) stays real
    if !std::thread::spawn(vh_clock::self_test).join().unwrap_or(false) {
        check.inconclusive("virtual clock interposition is not active");
        check.finish();
    }
    check.rule(
        "histories of 4-40 steps over 1-4 workers (cores 1-4, max_pipelines 100 or 1-3): register / deregister / heartbeat / advance (whole seconds, clustered at timeout-1..timeout+1) / sweep (optionally followed by failover like the sweep loop) / \
         set draining / k8s-style unhealthy (+failover) / deploy (1-3 pipelines, replicas 1-3, affinities; round-robin strategy) / manual migrate (plan+commit) / drain / rebalance (least-loaded target selection); timeout T+0.5 s for T in {2,5,15}; \
         non-trivial = a sweep saw a Ready worker with age T or T+1, or a placement happened while some worker was unavailable",
    );
    check.assume("vh-clock virtualises Instant for the coordinator (self-tested); capacity numbers (pipelines_running, max_pipelines) are read from the coordinator, only status and heartbeat age are modelled; Draining without a running drain is set directly on the public field, as sync_from_raft does; the pinned-worker rule is judged for deployments only (migrations of pinned pipelines are counted, not judged)");
    check.explore("history", strat, 30_000, 600_000, run);
    check.finish();
}
