//! C46 Both event-file readers read the same events from the same file.
//!
//! `EventFileParser::parse` (preload) vs `StreamingEventReader` (line by line) on the
//! same text: same event sequence (type + fields as maps, timestamps ignored) or both
//! reject.  "Reject" for the streaming reader = its iterator yields an `Err` item (that
//! is where `varpulis simulate` aborts).
use proptest::prelude::*;
use serde::{Deserialize, Serialize};
use varpulis_runtime::event_file::{EventFileParser, StreamingEventReader};
use vh_common::idx::pick;
use vh_common::{guard, Check, Outcome};
use vh_gen::vplsrc::{self, Tape};
use vh_gen::OutEv;

#[derive(Clone, Debug, Serialize, Deserialize)]
struct Case {
    origin: String,
    text: String,
}

const TYPES: &[&str] = &["Tick", "Order", "StockTick", "A", "Sensor_1", "Trade", "B", "ÉvT", "x", "Login", "Tick", "Order", "E2", "T_x", "Reading", "BATCHED"];
const FIELDS: &[&str] = &["id", "price", "symbol", "v", "ts", "user_id", "event_type", "data", "clé", "a b"];
const STRS: &[&str] = &[
    "\"AAPL\"", "\"\"", "\"a, b\"", "\"{x}\"", "\"tab\\t\"", "\"q\\\"q\"", "\"back\\\\\"", "\"@5s\"", "\"# no\"", "\"// no\"", "\"semi;\"", "'single'", "'it\\'s'", "\"é日本😀\"", "\"unknown\\q\"", "\"]\"", "\"nl\\n\"", "\"}\"", "\":\"",
];
const NUMS: &[&str] = &[
    "0", "1", "-1", "42", "007", "9223372036854775807", "-9223372036854775808", "9223372036854775808", "1.5", "-0.0", "1e5", "1E-3", "inf", "-inf", "NaN", "nan", "infinity", ".5", "5.", "+7", "1_000", "0x10",
];
const BARE: &[&str] = &["AAPL", "true", "false", "null", "nil", "True", "some words", "a:b", "x;y", "@", "#", "//"];

fn value(t: &mut Tape, depth: usize) -> String {
    match t.below(if depth > 0 { 5 } else { 4 }) {
        0 => t.of(NUMS).to_string(),
        1 => t.of(STRS).to_string(),
        2 => t.of(BARE).to_string(),
        3 => format!("{}", t.below(1000)),
        _ => {
            let n = t.below(4);
            let items: Vec<String> = (0..n).map(|_| value(t, depth - 1)).collect();
            format!("[{}]", items.join(if t.chance(1, 4) { "," } else { ", " }))
        }
    }
}

fn json_value(t: &mut Tape, depth: usize) -> String {
    match t.below(if depth > 0 { 8 } else { 6 }) {
        0 => format!("{}", t.below(1000) as i64 - 500),
        1 => t.of(&["1.5", "-0.0", "1e5", "1E-3", "9223372036854775807", "9223372036854775808", "18446744073709551616", "1e400", "-1e-400"]).to_string(),
        2 => t.of(&["\"AAPL\"", "\"\"", "\"a, b\"", "\"q\\\"q\"", "\"\\u00e9\\ud83d\\ude00\"", "\"é日本😀\"", "\"@5s\"", "\"nl\\n\""]).to_string(),
        3 => "true".into(),
        4 => "null".into(),
        5 => "false".into(),
        6 => {
            let n = t.below(4);
            let items: Vec<String> = (0..n).map(|_| json_value(t, depth - 1)).collect();
            format!("[{}]", items.join(", "))
        }
        _ => {
            let n = t.below(3);
            let items: Vec<String> = (0..n).map(|i| format!("\"k{}\": {}", i, json_value(t, depth - 1))).collect();
            format!("{{{}}}", items.join(", "))
        }
    }
}

fn event_text(t: &mut Tape) -> (String, &'static str) {
    let ty = t.of(TYPES);
    match t.below(30) {
        0..=14 => {
            let n = t.below(5);
            let fields: Vec<String> = (0..n).map(|_| format!("{}{}{}", t.of(FIELDS), t.of(&[": ", ":", " : "]), value(t, 2))).collect();
            let (o, c) = t.of(&[(" { ", " }"), ("{", "}"), (" {", "}"), ("  {  ", "  }")]);
            (format!("{}{}{}{}", ty, o, fields.join(t.of(&[", ", ",", " , "])), c), "plain")
        }
        15..=20 => {
            let n = t.below(4);
            let vals: Vec<String> = (0..n).map(|_| value(t, 2)).collect();
            (format!("{}({})", ty, vals.join(", ")), "positional")
        }
        21..=28 => {
            let n = t.below(4);
            let fields: Vec<String> = (0..n).map(|_| format!("\"{}\": {}", t.of(FIELDS), json_value(t, 2))).collect();
            match t.below(24) {
                0 => (format!("{{\"data\": {{{}}}}}", fields.join(", ")), "jsonl_no_type"),
                1 => (format!("{{\"event_type\": \"{}\", \"data\": {{{}}}", ty, fields.join(", ")), "jsonl_broken"),
                2 => (format!("{{\"event_type\": \"{}\"}}", ty), "jsonl"),
                3 => (format!("{{\"event_type\": 5, \"data\": {{{}}}}}", fields.join(", ")), "jsonl_no_type"),
                _ => (format!("{{\"event_type\": \"{}\", \"data\": {{{}}}}}", ty, fields.join(", ")), "jsonl"),
            }
        }
        _ => match t.below(4) {
            0 => (ty.to_string(), "bare_type"),
            1 => (format!("{} {{ id 5 }}", ty), "field_without_colon"),
            2 => (format!("{} {{ id: 1", ty), "unclosed"),
            _ => (format!("{} {{ }}", ty), "plain"),
        },
    }
}

/// One line of an event file (without newline) + labels.
fn line(t: &mut Tape, labels: &mut Vec<&'static str>) -> String {
    let lead = t.of(&["", "", "", "  ", "\t", "\u{a0}"]);
    let body = match t.below(20) {
        0 => {
            labels.push("blank");
            t.of(&["", "   ", "\t"]).to_string()
        }
        1 => {
            labels.push("comment");
            t.of(&["# comment", "// comment", "#", "# @5s Tick { id: 1 }", "// BATCH 5", "#BATCH x"]).to_string()
        }
        2 | 3 => {
            let arg = match t.below(36) {
                0..=6 | 11..=35 => format!("{}", t.below(5000)),
                7 => "18446744073709551615".to_string(),
                8 => {
                    labels.push("batch_invalid");
                    t.of(&["abc", "-1", "1.5", "18446744073709551616", "100ms", "+"]).to_string()
                }
                9 => String::new(),
                10 => "100 extra words".to_string(),
                _ => "0".to_string(),
            };
            labels.push("batch");
            format!("BATCH{}{}", if arg.is_empty() { "" } else { " " }, arg)
        }
        4..=8 => {
            let n = t.of(&["0", "1", "5", "10", "100", "007", "2", "30", "250", "1000", "60", "3", "15", "99", "18446744073709551", "18446744073709551615", "18446744073709552"]);
            let unit = t.of(&["s", "ms", "m", "", "s", "ms"]);
            let bad = t.below(40);
            let prefix = match bad {
                0 => {
                    labels.push("timing_invalid");
                    t.of(&["@abc", "@-5s", "@1.5s", "@5h", "@", "@s", "@@", "@5 s"]).to_string()
                }
                1 => format!("@@{}{}", n, unit),
                _ => format!("@{}{}", n, unit),
            };
            let (ev, kind) = event_text(t);
            labels.push("timing_prefix");
            labels.push(kind);
            match t.below(40) {
                0 => prefix, // prefix alone
                1 => format!("{}{}", prefix, ev),
                2 | 5 | 6 => format!("{}\t{}", prefix, ev),
                3 => format!("{} # c", prefix),
                4 => format!("{} BATCH 5", prefix),
                _ => format!("{} {}", prefix, ev),
            }
        }
        _ => {
            let (ev, kind) = event_text(t);
            labels.push(kind);
            ev
        }
    };
    let evt_line = matches!(labels.last(), Some(&"plain") | Some(&"positional"));
    let semi = if t.chance(1, if evt_line { 4 } else { 60 }) {
        labels.push("semicolon");
        t.of(&[";", ";;", " ;"])
    } else {
        ""
    };
    let trail = t.of(&["", "", "", " ", "\r"]);
    format!("{}{}{}{}", lead, body, semi, trail)
}

fn generated(t: &mut Tape) -> (String, Vec<&'static str>) {
    let n = 1 + t.below(12);
    let mut labels = vec![];
    let mut s = String::new();
    let nl = t.of(&["\n", "\n", "\n", "\r\n"]);
    for i in 0..n {
        s.push_str(&line(t, &mut labels));
        if i + 1 < n || t.chance(3, 4) {
            s.push_str(nl);
        }
    }
    (s, labels)
}

/// Line-level mutation of a corpus file.
fn mutate_evt(src: &str, k: usize, t: &mut Tape) -> (String, Vec<&'static str>) {
    let mut lines: Vec<String> = src.split('\n').map(|s| s.to_string()).collect();
    // keep it small: a window of the file
    if lines.len() > 40 {
        let start = t.below(lines.len() - 40);
        lines = lines[start..start + 40].to_vec();
    }
    let mut labels = vec![];
    for _ in 0..k {
        if lines.is_empty() {
            break;
        }
        let i = t.below(lines.len());
        match t.below(10) {
            0 => {
                lines.remove(i);
                labels.push("del_line");
            }
            1 => {
                let l = lines[i].clone();
                lines.insert(i, l);
                labels.push("dup_line");
            }
            2 => {
                let j = t.below(lines.len());
                lines.swap(i, j);
                labels.push("swap_lines");
            }
            3 => {
                lines[i] = format!("@{}{} {}", t.below(100), t.of(&["s", "ms", "m", ""]), lines[i].trim_start_matches('@'));
                labels.push("add_timing");
            }
            4 => {
                lines[i].push(';');
                labels.push("add_semicolon");
            }
            5 => {
                let mut lb = vec![];
                let l = line(t, &mut lb);
                lines.insert(i, l);
                labels.push("insert_generated_line");
            }
            6 => {
                let l = &lines[i];
                let mut p = pick(t.next(), l.len() + 1);
                while !l.is_char_boundary(p) {
                    p -= 1;
                }
                lines[i] = l[..p].to_string();
                labels.push("truncate_line");
            }
            7 => {
                let l = &lines[i];
                let mut p = pick(t.next(), l.len() + 1);
                while !l.is_char_boundary(p) {
                    p -= 1;
                }
                let ins = t.of(&["@", "#", "//", "{", "}", "(", ")", ",", ":", "\"", "'", "\\", ";", "BATCH ", "é", "[", "]", " "]);
                lines[i] = format!("{}{}{}", &l[..p], ins, &l[p..]);
                labels.push("insert_char");
            }
            8 => {
                lines.insert(i, format!("BATCH {}", t.of(&["0", "250", "x", "", "-3"])));
                labels.push("insert_batch");
            }
            _ => {
                let toks = vplsrc::tokenize(&lines[i]);
                if !toks.is_empty() {
                    let mut v = toks.clone();
                    v.remove(t.below(toks.len()));
                    lines[i] = v.concat();
                }
                labels.push("del_token");
            }
        }
    }
    (lines.join("\n"), labels)
}

fn strat() -> impl Strategy<Value = Case> {
    let corpus = vplsrc::corpus_evt();
    (any::<u16>(), any::<u16>(), 0usize..5, proptest::collection::vec(any::<u16>(), 0..400)).prop_map(move |(sel, which, nm, tape)| {
        let mut t = Tape::new(&tape);
        if pick(sel, 10) < 3 && !corpus.is_empty() {
            let (p, txt) = &corpus[pick(which, corpus.len())];
            let (text, labels) = mutate_evt(txt, nm, &mut t);
            Case { origin: format!("corpus:{}+{}", p, labels.join("+")), text }
        } else {
            let (text, labels) = generated(&mut t);
            let mut l: Vec<&str> = labels;
            l.sort();
            l.dedup();
            Case { origin: format!("generated+{}", l.join("+")), text }
        }
    })
}

fn preload(text: &str) -> Result<Vec<OutEv>, String> {
    EventFileParser::parse(text).map(|v| v.iter().map(|te| OutEv::from_event(&te.event)).collect())
}

fn streaming(text: &str) -> Result<Vec<OutEv>, String> {
    let reader = StreamingEventReader::new(std::io::Cursor::new(text.as_bytes().to_vec()));
    let mut out = vec![];
    for item in reader {
        match item {
            Ok(e) => out.push(OutEv::from_event(&e)),
            Err(e) => return Err(e),
        }
    }
    Ok(out)
}

fn judge(c: &Case) -> Outcome {
    let text = &c.text;
    if text.split('\n').any(|l| l.len() >= 1_000_000) {
        return Outcome::discard("line>=1MB (documented line-length limit of the streaming reader)");
    }
    let a = match guard(|| preload(text)) {
        Ok(r) => r,
        Err(p) => return Outcome::fail(format!("preload-{}", p.sig()), format!("EventFileParser::parse panicked at {}:{}: {}", p.file, p.line, p.message)),
    };
    let b = match guard(|| streaming(text)) {
        Ok(r) => r,
        Err(p) => return Outcome::fail(format!("streaming-{}", p.sig()), format!("StreamingEventReader panicked at {}:{}: {}", p.file, p.line, p.message)),
    };
    let has_timing = text.split('\n').any(|l| l.trim().starts_with('@'));
    let has_batch = text.split('\n').any(|l| l.trim().starts_with("BATCH"));
    let which = if has_timing { "timing-prefix" } else if has_batch { "batch" } else { "plain" };
    let out = match (&a, &b) {
        (Ok(x), Ok(y)) => {
            if x != y {
                let i = x.iter().zip(y.iter()).position(|(p, q)| p != q).unwrap_or(x.len().min(y.len()));
                return Outcome::fail(
                    format!("events-differ:{}", which),
                    format!("preload read {} events, streaming {}; first difference at index {}: preload={:?} streaming={:?}; file={:?}", x.len(), y.len(), i, x.get(i), y.get(i), vh_common::truncate(text, 600)),
                );
            }
            Outcome::pass().nontrivial((has_timing || has_batch) && x.len() >= 2).class("both_accept").class_if(x.is_empty(), "no_events").class_if(x.len() >= 2, "events>=2")
        }
        (Err(ea), Err(_)) => {
            if std::env::var("VERIF_C46_DEBUG").is_ok() {
                eprintln!("REJECT {}", ea);
            }
            Outcome::pass().class("both_reject")
        }
        (Ok(x), Err(e)) => {
            return Outcome::fail(format!("only-streaming-rejects:{}", which), format!("preload accepts ({} events), streaming rejects: {}; file={:?}", x.len(), e, vh_common::truncate(text, 600)));
        }
        (Err(e), Ok(y)) => {
            return Outcome::fail(format!("only-preload-rejects:{}", which), format!("preload rejects ({}), streaming accepts ({} events); file={:?}", e, y.len(), vh_common::truncate(text, 600)));
        }
    };
    let mut out = out.class_if(has_timing, "has_timing_prefix").class_if(has_batch, "has_batch").class_if(text.contains("\r\n"), "crlf").class_if(!text.is_ascii(), "non_ascii");
    let (base, labels) = c.origin.split_once('+').unwrap_or((&c.origin, ""));
    out = out.class(if base.starts_with("corpus") { "base:corpus" } else { "base:generated" });
    for l in labels.split('+').filter(|l| !l.is_empty()) {
        out = out.class(format!("form:{}", l));
    }
    out
}

fn main() {
    let check = Check::new("C46", "exploration");
    let corpus = vplsrc::corpus_evt();
    check.rule("event files = 1-12 generated lines over the documented forms (plain `T { f: v }`, positional `T(v)`, `BATCH n`, `@Ns/@Nms/@Nm/@N` prefixes before any event form, JSONL, comments, blank lines, semicolons, CRLF, leading/trailing whitespace; values: boundary numbers, inf/nan, quoted strings with escapes/commas/braces, bare words, nested arrays; a minority of malformed directives/prefixes/events) (70%) or a 40-line window of a repository .evt file with 0-4 line-level mutations (30%); oracle: preload parser and streaming reader yield the same (type, field map) sequence, timestamps ignored, or both reject; non-trivial = file with a timing prefix or BATCH and >=2 events accepted (distinct by text)");
    check.assume("lines shorter than the streaming reader's documented 1 MiB line limit; the streaming reader 'rejects' when its iterator yields an Err item (where `varpulis simulate` aborts)");
    check.extra("corpus_evt_files", serde_json::json!(corpus.len()));
    let fixed: Vec<Case> = corpus.iter().map(|(p, t)| Case { origin: format!("corpus:{}+unmutated", p), text: t.clone() }).collect();
    check.enumerate("corpus_unmutated", fixed, judge);
    check.explore("files", strat, 60_000, 1_000_000, judge);
    check.finish();
}
