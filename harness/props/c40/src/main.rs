//! C40 Value equality is an equivalence consistent with hashing.
use proptest::prelude::*;
use serde::{Deserialize, Serialize};
use std::hash::{Hash, Hasher};
use vh_common::{Check, Outcome};
use vh_gen::V;

#[derive(Clone, Debug, Serialize, Deserialize)]
struct Triple {
    a: V,
    b: V,
    c: V,
}

fn h_std(v: &varpulis_core::Value) -> u64 {
    let mut h = std::collections::hash_map::DefaultHasher::new();
    v.hash(&mut h);
    h.finish()
}
fn h_fx(v: &varpulis_core::Value) -> u64 {
    let mut h = rustc_hash::FxHasher::default();
    v.hash(&mut h);
    h.finish()
}

/// A variant of `v` that should compare equal: permute map entries, flip zero sign,
/// replace NaN by another NaN payload.
fn twist(v: &V, salt: u64) -> V {
    match v {
        V::Float(f) if f.0 == 0.0 => V::f(if salt & 1 == 0 { -0.0 } else { 0.0 }),
        V::Float(f) if f.0.is_nan() => V::f(f64::from_bits(f64::NAN.to_bits() ^ ((salt & 1) << 63) | (salt & 0xff))),
        V::Arr(a) => V::Arr(a.iter().enumerate().map(|(i, x)| twist(x, salt.rotate_left(i as u32 + 1))).collect()),
        V::Map(m) => {
            let mut e: Vec<(String, V)> = m.iter().enumerate().map(|(i, (k, x))| (k.clone(), twist(x, salt.rotate_left(i as u32 + 3)))).collect();
            let n = e.len();
            if n > 1 {
                e.rotate_left((salt as usize % (n - 1)) + 1);
                if salt & 4 != 0 {
                    e.reverse();
                }
            }
            V::Map(e)
        }
        other => other.clone(),
    }
}

fn strat() -> impl Strategy<Value = Triple> {
    (vh_gen::value(3), vh_gen::value(3), vh_gen::value(3), any::<u64>(), 0u8..8).prop_map(|(a, b, c, salt, mode)| {
        // force overlaps: b and/or c are twisted copies of a
        let b2 = if mode & 1 != 0 { twist(&a, salt) } else { b };
        let c2 = if mode & 2 != 0 { twist(&b2, salt.rotate_left(17)) } else if mode & 4 != 0 { twist(&a, !salt) } else { c };
        Triple { a, b: b2, c: c2 }
    })
}

fn main() {
    let check = Check::new("C40", "exploration");
    check.rule("triples of runtime values (depth<=3, every variant, NaN/-0.0, permuted maps; b/c are forced 'twisted' copies of a in 7/8 of cases); oracle: reflexive, symmetric, transitive, a==b => hash(a)==hash(b) for std SipHash and FxHasher; non-trivial = some pair is equal but not structurally identical (different map order / zero sign / NaN payload)");
    check.explore("eq_hash", strat, 200_000, 2_000_000, |t: &Triple| {
        let (a, b, c) = (t.a.to_value(), t.b.to_value(), t.c.to_value());
        let vals = [&a, &b, &c];
        for x in vals {
            if !(x == x) {
                return Outcome::fail("not-reflexive", format!("{:?}", x));
            }
        }
        for x in vals {
            for y in vals {
                if (x == y) != (y == x) {
                    return Outcome::fail("not-symmetric", format!("{:?} vs {:?}", x, y));
                }
                if x == y {
                    if h_std(x) != h_std(y) || h_fx(x) != h_fx(y) {
                        let kind = if format!("{:?}", x).contains("Map") { "map" } else { "other" };
                        return Outcome::fail(format!("eq-but-hash-differs:{}", kind), format!("{:?} == {:?}", x, y));
                    }
                }
            }
        }
        if a == b && b == c && a != c {
            return Outcome::fail("not-transitive", format!("{:?} {:?} {:?}", a, b, c));
        }
        let nontrivial = (a == b && t.a != t.b) || (b == c && t.b != t.c) || (a == c && t.a != t.c);
        Outcome::pass()
            .nontrivial(nontrivial)
            .class_if(a == b, "a_eq_b")
            .class_if(nontrivial, "equal_not_identical")
            .class_if(format!("{:?}", t).contains("Map"), "has_map")
    });
    check.finish();
}
