//! C12 Tumbling, count and session windows partition their input exactly.
//!
//! Oracles (written from the property statement + docs/reference/windows-aggregations.md,
//! not from window.rs):
//!  (a) partition invariant — always: closed windows in emission order followed by the
//!      final buffer are exactly the arrival sequence (per partition key for the
//!      partitioned variants), each id once; a count window closes with exactly N events
//!      and (docs: "emits when count is reached") on the N-th arrival.
//!  (b) in-order streams without watermark steps — exact reference model:
//!      tumbling closes on the first event with t >= t_first + D ("holds only events
//!      earlier than its first event plus the duration", "window resets with the
//!      triggering event"); session closes on the first event whose gap to the previous
//!      one is > gap ("inactive for more than").
//!  (c) in-order streams with truthful watermarks — bounds only (tumbling: every event of a
//!      window is < t_first + D; session: consecutive gaps <= gap).
use proptest::prelude::*;
use serde::{Deserialize, Serialize};
use std::collections::BTreeMap;
use std::sync::Arc;
use varpulis_runtime::event::SharedEvent;
use varpulis_runtime::window::{CountWindow, PartitionedSessionWindow, PartitionedTumblingWindow, SessionWindow, TumblingWindow};
use vh_common::{Check, Outcome};
use vh_gen::engine::Eng;
use vh_gen::{Ev, OutEv, V};

const KEYS: [&str; 3] = ["ka", "kb", "kc"];

#[derive(Clone, Debug, PartialEq, Serialize, Deserialize)]
enum Step {
    /// event with timestamp (ms grid units) and partition key index (None = field missing)
    Ev { ts: i64, key: Option<u8> },
    /// advance_watermark(ts)
    Wm { ts: i64 },
}

#[derive(Clone, Debug, Serialize, Deserialize)]
struct Case {
    /// 0 tumbling, 1 count, 2 session
    kind: u8,
    /// duration / gap in grid units, or count
    size: i64,
    partitioned: bool,
    /// engine sub only: grid unit is seconds (else milliseconds)
    unit_s: bool,
    steps: Vec<Step>,
}

const ID0: i64 = 100;

#[derive(Clone, Debug)]
struct In {
    id: i64,
    ts: i64,
    key: Option<u8>,
}

impl Case {
    fn inputs(&self) -> Vec<In> {
        let mut v = vec![];
        for s in &self.steps {
            if let Step::Ev { ts, key } = s {
                v.push(In { id: ID0 + v.len() as i64, ts: *ts, key: *key });
            }
        }
        v
    }
    fn in_order(&self) -> bool {
        let i = self.inputs();
        i.windows(2).all(|w| w[0].ts <= w[1].ts)
    }
    fn has_wm(&self) -> bool {
        self.steps.iter().any(|s| matches!(s, Step::Wm { .. }))
    }
    /// every watermark is truthful: no later event is older than it
    fn wm_truthful(&self) -> bool {
        for (i, s) in self.steps.iter().enumerate() {
            if let Step::Wm { ts: w } = s {
                if self.steps[i + 1..].iter().any(|s| matches!(s, Step::Ev { ts, .. } if ts < w)) {
                    return false;
                }
            }
        }
        true
    }
}

fn key_name(k: Option<u8>) -> Option<&'static str> {
    k.map(|k| KEYS[k as usize % KEYS.len()])
}

fn mk_event(i: &In, scale: i64) -> Ev {
    let mut e = Ev::new("E", i.ts * scale).with("id", V::Int(i.id));
    if let Some(k) = key_name(i.key) {
        e = e.with("k", V::s(k));
    }
    e
}

fn ids(evs: &[SharedEvent]) -> Vec<i64> {
    evs.iter().map(|e| e.get_int("id").unwrap_or(-1)).collect()
}

// --------------------------------------------------------------- generator

fn build(kind: u8, size: i64, partitioned: bool, unit_s: bool, mode: u8, raw: Vec<(u8, u8, u8, u8)>) -> Case {
    let with_wm = (mode & 1 == 1 || mode == 4) && kind != 1;
    let disorder = mode & 2 == 2;
    let mut cur = 0i64;
    let mut steps = vec![];
    for (sel, dsel, jit, key) in raw {
        if with_wm && sel < 14 {
            let off = [-1, 0, 1, size - 1, size, size + 1, 2 * size, -size][dsel as usize % 8];
            steps.push(Step::Wm { ts: (cur + off).max(0) });
            continue;
        }
        let delta = [0, 0, 1, 1, size - 1, size, size + 1, 2 * size + 1][dsel as usize % 8];
        cur += delta;
        let mut ts = cur;
        if disorder && jit < 25 {
            ts = (cur - (1 + (jit as i64) % (size + 1))).max(0);
        }
        let key = if !partitioned {
            Some(0)
        } else if key == 7 {
            None
        } else {
            Some(key % 3)
        };
        steps.push(Step::Ev { ts, key });
    }
    if mode == 4 {
        // truthful flavour: no watermark is ahead of a later event
        let mut min_later = i64::MAX;
        for s in steps.iter_mut().rev() {
            match s {
                Step::Ev { ts, .. } => min_later = min_later.min(*ts),
                Step::Wm { ts } => *ts = (*ts).min(min_later),
            }
        }
    }
    Case { kind, size, partitioned, unit_s, steps }
}

fn strat(partitioned: bool) -> impl Strategy<Value = Case> {
    (
        0u8..3,
        1i64..=5,
        any::<bool>(),
        prop_oneof![3 => Just(0u8), 2 => Just(1u8), 1 => Just(2u8), 1 => Just(3u8), 3 => Just(4u8)],
        proptest::collection::vec((0u8..100, 0u8..8, 0u8..100, 0u8..8), 0..=60),
    )
        .prop_map(move |(kind, size, unit_s, mode, raw)| build(kind, size, partitioned, unit_s, mode, raw))
}

fn strat_engine() -> impl Strategy<Value = Case> {
    (
        0u8..3,
        1i64..=5,
        any::<bool>(),
        any::<bool>(),
        prop_oneof![4 => Just(0u8), 1 => Just(2u8)],
        proptest::collection::vec((0u8..100, 0u8..8, 0u8..100, 0u8..8), 0..=60),
    )
        .prop_map(|(kind, size, partitioned, unit_s, mode, raw)| build(kind, size, partitioned, unit_s, mode, raw))
}

// --------------------------------------------------------------- reference model

/// One closed window as observed / expected: index (into inputs) of the event whose arrival
/// closed it (None: closed by a watermark or by the final flush) and the ids it holds.
#[derive(Clone, Debug, PartialEq)]
struct Closed {
    trigger: Option<i64>,
    ids: Vec<i64>,
}

/// Exact model for an in-order stream without watermarks (single partition).
/// Returns (closed windows, final buffer).
fn model(kind: u8, size: i64, ins: &[In]) -> (Vec<Closed>, Vec<i64>) {
    let (c, r, _) = model_b(kind, size, ins);
    (c, r)
}

/// as `model`, plus the number of boundary ties: tumbling — an arrival at exactly t_first + D;
/// session — an arrival whose gap to its predecessor is exactly the session gap.
fn model_b(kind: u8, size: i64, ins: &[In]) -> (Vec<Closed>, Vec<i64>, usize) {
    let mut closed = vec![];
    let mut buf: Vec<&In> = vec![];
    let mut ties = 0usize;
    for e in ins {
        match (kind, buf.first(), buf.last()) {
            (0, Some(first), _) if e.ts == first.ts + size => ties += 1,
            (2, _, Some(last)) if e.ts - last.ts == size => ties += 1,
            _ => {}
        }
        match kind {
            0 => {
                // tumbling: a window holds only events earlier than first + D
                if let Some(first) = buf.first() {
                    if e.ts >= first.ts + size {
                        closed.push(Closed { trigger: Some(e.id), ids: buf.iter().map(|x| x.id).collect() });
                        buf.clear();
                    }
                }
                buf.push(e);
            }
            1 => {
                buf.push(e);
                if buf.len() as i64 == size {
                    closed.push(Closed { trigger: Some(e.id), ids: buf.iter().map(|x| x.id).collect() });
                    buf.clear();
                }
            }
            _ => {
                if let Some(last) = buf.last() {
                    if e.ts - last.ts > size {
                        closed.push(Closed { trigger: Some(e.id), ids: buf.iter().map(|x| x.id).collect() });
                        buf.clear();
                    }
                }
                buf.push(e);
            }
        }
    }
    (closed, buf.iter().map(|x| x.id).collect(), ties)
}

struct Facts {
    closed_nonempty: usize,
    boundary_exact: bool,
    ts_tie: bool,
}

fn facts(case: &Case, ins: &[In], closed_nonempty: usize) -> Facts {
    // boundary ties as the reference model sees them (per partition)
    let mut boundary_exact = false;
    let mut ts_tie = false;
    let mut per_key: BTreeMap<Option<u8>, Vec<In>> = BTreeMap::new();
    for i in ins {
        per_key.entry(if case.partitioned { i.key } else { None }).or_default().push(i.clone());
    }
    for sub in per_key.values() {
        if sub.windows(2).any(|w| w[0].ts == w[1].ts) {
            ts_tie = true;
        }
        if model_b(case.kind, case.size, sub).2 > 0 {
            boundary_exact = true;
        }
    }
    Facts { closed_nonempty, boundary_exact, ts_tie }
}

/// Checks shared by all sub-checks, on one partition's view:
/// `closed` in emission order, `rest` final buffer (None when it cannot be observed).
fn check_partition(case: &Case, what: &str, ins: &[In], closed: &[Closed], rest: Option<&[i64]>, judged_exact: bool, judged_bounds: bool) -> Result<(), (String, String)> {
    let kname = ["tumbling", "count", "session"][case.kind as usize];
    // (a) partition invariant
    let mut cat: Vec<i64> = closed.iter().flat_map(|c| c.ids.iter().cloned()).collect();
    if let Some(r) = rest {
        cat.extend_from_slice(r);
        let want: Vec<i64> = ins.iter().map(|i| i.id).collect();
        if cat != want {
            return Err((format!("{}:{}:not-a-partition", what, kname), format!("closed windows + buffer = {:?}, arrivals = {:?}", cat, want)));
        }
    } else {
        let want: Vec<i64> = ins.iter().map(|i| i.id).take(cat.len()).collect();
        if cat != want {
            return Err((format!("{}:{}:not-a-partition", what, kname), format!("closed windows = {:?} is not a prefix of arrivals {:?}", cat, ins.iter().map(|i| i.id).collect::<Vec<_>>())));
        }
    }
    let by_id: BTreeMap<i64, &In> = ins.iter().map(|i| (i.id, i)).collect();
    if case.kind == 1 {
        for c in closed {
            if c.ids.len() as i64 != case.size {
                return Err((format!("{}:count:size", what), format!("count window of size {} closed with {:?}", case.size, c.ids)));
            }
        }
        if let Some(r) = rest {
            // docs: "Emits when count is reached" - a full window is never left buffered
            if r.len() as i64 >= case.size {
                return Err((format!("{}:count:late-close", what), format!("{} events left buffered with size {}", r.len(), case.size)));
            }
        }
    }
    // (c) bounds for in-order + truthful watermarks
    if judged_bounds {
        let mut all: Vec<&Closed> = closed.iter().collect();
        let tail;
        if let Some(r) = rest {
            tail = Closed { trigger: None, ids: r.to_vec() };
            all.push(&tail);
        }
        for c in all {
            let ev: Vec<&In> = c.ids.iter().filter_map(|i| by_id.get(i).cloned()).collect();
            if case.kind == 0 {
                if let Some(first) = ev.first() {
                    if let Some(bad) = ev.iter().find(|e| e.ts >= first.ts + case.size) {
                        return Err((format!("{}:tumbling:bound", what), format!("window {:?} first ts {} D {} holds event id {} ts {}", c.ids, first.ts, case.size, bad.id, bad.ts)));
                    }
                }
            }
            if case.kind == 2 {
                for w in ev.windows(2) {
                    if w[1].ts - w[0].ts > case.size {
                        return Err((format!("{}:session:bound", what), format!("window {:?} gap {} holds consecutive ts {} -> {}", c.ids, case.size, w[0].ts, w[1].ts)));
                    }
                }
            }
        }
    }
    // (b) exact model
    if judged_exact {
        let (mc, mrest) = model(case.kind, case.size, ins);
        if mc != closed {
            let k = mc.iter().zip(closed.iter()).position(|(a, b)| a != b).unwrap_or(mc.len().min(closed.len()));
            return Err((
                format!("{}:{}:model-mismatch", what, kname),
                format!("first difference at window #{}: expected {:?} got {:?} (size {}, input ts {:?})", k, mc.get(k), closed.get(k), case.size, ins.iter().map(|i| (i.id, i.ts)).collect::<Vec<_>>()),
            ));
        }
        if let Some(r) = rest {
            if mrest != r {
                return Err((format!("{}:{}:model-buffer", what, kname), format!("expected buffer {:?} got {:?}", mrest, r)));
            }
        }
    }
    Ok(())
}

fn outcome(case: &Case, ins: &[In], closed_nonempty: usize, empty_windows: usize, wm_closes: usize, late_after_wm: bool, exact: bool, bounds: bool) -> Outcome {
    let f = facts(case, ins, closed_nonempty);
    let kname = ["tumbling", "count", "session"][case.kind as usize];
    Outcome::pass()
        .nontrivial(f.closed_nonempty >= 2 && (case.kind == 1 || f.boundary_exact))
        .class(format!("kind:{}", kname))
        .class_if(f.closed_nonempty >= 2, "closed>=2")
        .class_if(f.boundary_exact, "boundary_tie")
        .class_if(f.ts_tie, "ts_tie")
        .class_if(!case.in_order(), "out_of_order")
        .class_if(wm_closes > 0, "closed_by_watermark")
        .class_if(late_after_wm, "event_older_than_watermark")
        .class_if(empty_windows > 0, "empty_window_emitted")
        .class_if(exact, "judged:exact_model")
        .class_if(bounds && !exact, "judged:bounds_only")
        .class_if(!bounds && !exact, "judged:partition_only")
        .class_if(case.partitioned, "partitioned")
}

// --------------------------------------------------------------- direct API, single window

enum W {
    T(TumblingWindow),
    C(CountWindow),
    S(SessionWindow),
}

fn dur(size: i64) -> chrono::Duration {
    chrono::Duration::milliseconds(size)
}

fn run_direct(case: &Case) -> Outcome {
    let ins = case.inputs();
    let mut w = match case.kind {
        0 => W::T(TumblingWindow::new(dur(case.size))),
        1 => W::C(CountWindow::new(case.size as usize)),
        _ => W::S(SessionWindow::new(dur(case.size))),
    };
    let mut closed: Vec<Closed> = vec![];
    let mut empty_windows = 0;
    let mut wm_closes = 0;
    let mut next = 0usize;
    for s in &case.steps {
        match s {
            Step::Ev { .. } => {
                let i = &ins[next];
                next += 1;
                let e: SharedEvent = Arc::new(mk_event(i, 1).to_event());
                let r = match &mut w {
                    W::T(w) => w.add_shared(e),
                    W::C(w) => w.add_shared(e),
                    W::S(w) => w.add_shared(e),
                };
                if let Some(evs) = r {
                    if evs.is_empty() {
                        empty_windows += 1;
                    } else {
                        closed.push(Closed { trigger: Some(i.id), ids: ids(&evs) });
                    }
                }
            }
            Step::Wm { ts } => {
                let t = vh_gen::ts(*ts);
                let r = match &mut w {
                    W::T(w) => w.advance_watermark(t),
                    W::C(_) => None,
                    W::S(w) => w.advance_watermark(t),
                };
                if let Some(evs) = r {
                    if evs.is_empty() {
                        empty_windows += 1;
                    } else {
                        wm_closes += 1;
                        closed.push(Closed { trigger: None, ids: ids(&evs) });
                    }
                }
            }
        }
    }
    let rest = match &mut w {
        W::T(w) => ids(&w.flush_shared()),
        W::C(w) => ids(&w.flush_shared()),
        W::S(w) => ids(&w.flush_shared()),
    };
    let in_order = case.in_order();
    let exact = in_order && !case.has_wm();
    let bounds = in_order && case.wm_truthful();
    if let Err((sig, d)) = check_partition(case, "direct", &ins, &closed, Some(&rest), exact, bounds) {
        return Outcome::fail(sig, format!("{} | case {:?}", d, case));
    }
    outcome(case, &ins, closed.len(), empty_windows, wm_closes, !case.wm_truthful(), exact, bounds)
}

// --------------------------------------------------------------- direct API, partitioned windows

enum PW {
    T(PartitionedTumblingWindow),
    S(PartitionedSessionWindow),
}

fn run_partitioned(case: &Case) -> Outcome {
    if case.kind == 1 {
        // partitioned count windows are crate-private (PartitionedWindowState): Engine sub covers them
        return run_direct(&Case { partitioned: false, ..case.clone() });
    }
    let ins = case.inputs();
    let mut w = match case.kind {
        0 => PW::T(PartitionedTumblingWindow::new("k".into(), dur(case.size))),
        _ => PW::S(PartitionedSessionWindow::new("k".into(), dur(case.size))),
    };
    let by_id: BTreeMap<i64, &In> = ins.iter().map(|i| (i.id, i)).collect();
    let mut closed: BTreeMap<Option<u8>, Vec<Closed>> = BTreeMap::new();
    let mut empty_windows = 0;
    let mut wm_closes = 0;
    let mut next = 0usize;
    let mut record = |evs: Vec<SharedEvent>, trigger: Option<i64>, tag: Option<&str>, closed: &mut BTreeMap<Option<u8>, Vec<Closed>>| -> Result<(), (String, String)> {
        let idv = ids(&evs);
        let keys: Vec<Option<u8>> = idv.iter().map(|i| by_id.get(i).and_then(|x| x.key)).collect();
        let k0 = keys[0];
        if keys.iter().any(|k| *k != k0) {
            return Err(("partitioned:mixed-keys".into(), format!("window {:?} mixes partition keys {:?}", idv, keys)));
        }
        if let Some(tag) = tag {
            let want = key_name(k0).unwrap_or("default");
            if tag != want {
                return Err(("partitioned:wrong-tag".into(), format!("window {:?} of key {:?} reported under partition {:?}", idv, want, tag)));
            }
        }
        closed.entry(k0).or_default().push(Closed { trigger, ids: idv });
        Ok(())
    };
    for s in &case.steps {
        match s {
            Step::Ev { .. } => {
                let i = &ins[next];
                next += 1;
                let e: SharedEvent = Arc::new(mk_event(i, 1).to_event());
                let r = match &mut w {
                    PW::T(w) => w.add_shared(e),
                    PW::S(w) => w.add_shared(e),
                };
                if let Some(evs) = r {
                    if evs.is_empty() {
                        empty_windows += 1;
                    } else {
                        // the window closed by an arrival belongs to the arriving event's partition
                        let k_new = i.key;
                        let first_key = by_id.get(&ids(&evs)[0]).and_then(|x| x.key);
                        if first_key != k_new {
                            return Outcome::fail("partitioned:closed-other-partition", format!("arrival id {} key {:?} closed a window of key {:?} | case {:?}", i.id, k_new, first_key, case));
                        }
                        if let Err((sig, d)) = record(evs, Some(i.id), None, &mut closed) {
                            return Outcome::fail(sig, format!("{} | case {:?}", d, case));
                        }
                    }
                }
            }
            Step::Wm { ts } => {
                let t = vh_gen::ts(*ts);
                let parts = match &mut w {
                    PW::T(w) => w.advance_watermark(t),
                    PW::S(w) => w.advance_watermark(t),
                };
                let mut parts = parts;
                parts.sort_by(|a, b| a.0.cmp(&b.0));
                for (tag, evs) in parts {
                    if evs.is_empty() {
                        empty_windows += 1;
                        continue;
                    }
                    wm_closes += 1;
                    if let Err((sig, d)) = record(evs, None, Some(&tag), &mut closed) {
                        return Outcome::fail(sig, format!("{} | case {:?}", d, case));
                    }
                }
            }
        }
    }
    let rest_all = match &mut w {
        PW::T(w) => ids(&w.flush_shared()),
        PW::S(w) => ids(&w.flush_shared()),
    };
    let mut rest: BTreeMap<Option<u8>, Vec<i64>> = BTreeMap::new();
    for id in rest_all {
        match by_id.get(&id) {
            Some(i) => rest.entry(i.key).or_default().push(id),
            None => return Outcome::fail("partitioned:unknown-id", format!("flush returned unknown id {} | case {:?}", id, case)),
        }
    }
    let in_order = case.in_order();
    let exact = in_order && !case.has_wm();
    let bounds = in_order && case.wm_truthful();
    let mut keys: Vec<Option<u8>> = ins.iter().map(|i| i.key).collect();
    keys.sort();
    keys.dedup();
    // a key the window reports but no input has cannot exist (record() looked ids up), but make sure
    // nothing is reported for keys outside the input
    for k in closed.keys().chain(rest.keys()) {
        if !keys.contains(k) {
            return Outcome::fail("partitioned:phantom-key", format!("{:?} | case {:?}", k, case));
        }
    }
    let mut total_closed = 0;
    for k in keys {
        let sub: Vec<In> = ins.iter().filter(|i| i.key == k).cloned().collect();
        let c = closed.get(&k).cloned().unwrap_or_default();
        let r = rest.get(&k).cloned().unwrap_or_default();
        total_closed += c.len();
        if let Err((sig, d)) = check_partition(case, "partitioned", &sub, &c, Some(&r), exact, bounds) {
            return Outcome::fail(sig, format!("key {:?}: {} | case {:?}", k, d, case));
        }
    }
    outcome(case, &ins, total_closed, empty_windows, wm_closes, !case.wm_truthful(), exact, bounds)
}

// --------------------------------------------------------------- Engine API

fn vpl(case: &Case) -> String {
    let unit = if case.unit_s { "s" } else { "ms" };
    let win = match case.kind {
        0 => format!(".window({}{})", case.size, unit),
        1 => format!(".window({})", case.size),
        _ => format!(".window(session: {}{})", case.size, unit),
    };
    format!(
        "stream S = E\n{}    {}\n    .aggregate(n: count(), f: first(id), l: last(id))\n    .emit(n: n, f: f, l: l)\n",
        if case.partitioned { "    .partition_by(k)\n" } else { "" },
        win
    )
}

fn run_engine(case: &Case) -> Outcome {
    let ins = case.inputs();
    let src = vpl(case);
    let mut eng = match Eng::new(&src) {
        Ok(e) => e,
        Err(e) => return Outcome::discard(format!("program rejected: {}", vh_common::truncate(&e, 60))),
    };
    let scale = if case.unit_s { 1000 } else { 1 };
    let pos: BTreeMap<i64, usize> = ins.iter().enumerate().map(|(p, i)| (i.id, p)).collect();
    let mut closed: BTreeMap<Option<u8>, Vec<Closed>> = BTreeMap::new();
    for i in &ins {
        let outs = match eng.process(&mk_event(i, scale)) {
            Ok(o) => o,
            Err(e) => return Outcome::fail("engine:process-error", e),
        };
        for o in outs {
            let o = OutEv::from_event(&o);
            let (Some(n), Some(f), Some(l)) = (o.get_int("n"), o.get_int("f"), o.get_int("l")) else {
                return Outcome::fail("engine:malformed-output", format!("{:?}", o));
            };
            let (Some(pf), Some(pl)) = (pos.get(&f), pos.get(&l)) else {
                return Outcome::fail("engine:unknown-id", format!("{:?}", o));
            };
            // the window's content is the arrivals between first and last (of the same partition)
            let key = ins[*pf].key;
            let k = if case.partitioned { key } else { None };
            if pl < pf {
                return Outcome::fail("engine:first-after-last", format!("{:?}", o));
            }
            let content: Vec<i64> = ins[*pf..=*pl].iter().filter(|x| !case.partitioned || x.key == key).map(|x| x.id).collect();
            if content.len() as i64 != n {
                return Outcome::fail(
                    format!("engine:{}:count-vs-span", ["tumbling", "count", "session"][case.kind as usize]),
                    format!("output n={} first={} last={} but {} arrivals of that partition lie between them | {} | {:?}", n, f, l, content.len(), src, case),
                );
            }
            closed.entry(k).or_default().push(Closed { trigger: Some(i.id), ids: content });
        }
    }
    let exact = case.in_order();
    let mut keys: Vec<Option<u8>> = ins.iter().map(|i| if case.partitioned { i.key } else { None }).collect();
    keys.sort();
    keys.dedup();
    let mut total = 0;
    for k in keys {
        let sub: Vec<In> = ins.iter().filter(|i| !case.partitioned || i.key == k).cloned().collect();
        let c = closed.get(&k).cloned().unwrap_or_default();
        total += c.len();
        if let Err((sig, d)) = check_partition(case, "engine", &sub, &c, None, exact, exact) {
            return Outcome::fail(sig, format!("key {:?}: {} | {} | {:?}", k, d, src, case));
        }
    }
    outcome(case, &ins, total, 0, 0, false, exact, exact).class(if case.unit_s { "unit:s" } else { "unit:ms" })
}

fn main() {
    let check = Check::new("C12", "exploration");
    check.rule(
        "streams of <=60 events on a ms grid (deltas drawn from {0,1,D-1,D,D+1,2D+1} so ties and exact boundaries are common; in-order and bounded-disorder variants; \
         interleaved advance_watermark steps at offsets around the boundary, truthful and untruthful) against tumbling/count/session windows of size 1..5: \
         direct API (TumblingWindow, CountWindow, SessionWindow; PartitionedTumblingWindow, PartitionedSessionWindow per key) with final flush, and Engine API \
         (.window(..).aggregate(count, first(id), last(id)).emit, with/without partition_by, ms and s units). Oracle: partition invariant always; exact reference \
         model for in-order streams without watermarks; window bounds for in-order streams with truthful watermarks. \
         non-trivial = >=2 non-empty closed windows and (count window, or an arrival at exactly t_first+D of the open tumbling window, or a gap exactly equal to the session gap)",
    );
    check.assume("Engine sub observes window contents only through count/first(id)/last(id) of the aggregate (contiguity of the span in arrival order is implied by the count check)");
    check.assume("watermark-driven closes are judged by the partition invariant and window bounds only (the statement does not define when a watermark must close a window)");
    check.explore("direct", || strat(false), 30_000, 600_000, run_direct);
    check.explore("direct_partitioned", || strat(true), 20_000, 400_000, run_partitioned);
    check.explore("engine", strat_engine, 10_000, 200_000, run_engine);
    check.finish();
}
