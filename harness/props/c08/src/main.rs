//! C08 Numeric comparisons `< <= > >=` agree with the mathematical order for every
//! int/float mix, in `.where`, `.emit`, `.having`, `.pattern` (+ the two evaluator
//! functions called directly).
use proptest::prelude::*;
use serde::{Deserialize, Serialize};
use std::cmp::Ordering;
use std::collections::BTreeSet;
use vh_common::{Check, Outcome};
use vh_gen::{engine::Eng, Ev, OutEv, V};

const OPS: [(&str, &str); 4] = [("lt", "<"), ("le", "<="), ("gt", ">"), ("ge", ">=")];

#[derive(Clone, Debug, Serialize, Deserialize)]
struct Case {
    /// 0: field OP field, 1: field OP literal, 2: literal OP field
    shape: u8,
    /// literal used by shapes 1 and 2 (finite)
    lit: V,
    /// operand pairs; with shape 1 the right operand is `lit`, with shape 2 the left one
    pairs: Vec<(V, V)>,
    /// replay-only: also judge the classes excluded as known findings
    #[serde(default)]
    raw: bool,
}

// ------------------------------------------------------------------ exact oracle

const TWO63: f64 = 9223372036854775808.0;

/// exact order of the integer `i` relative to the non-NaN float `f`
fn cmp_int_float(i: i64, f: f64) -> Ordering {
    if f == f64::INFINITY {
        return Ordering::Less;
    }
    if f == f64::NEG_INFINITY {
        return Ordering::Greater;
    }
    let t = f.trunc(); // exact
    if t >= TWO63 {
        return Ordering::Less;
    }
    if t < -TWO63 {
        return Ordering::Greater;
    }
    let ti = t as i128; // exact: |t| <= 2^63
    match (i as i128).cmp(&ti) {
        Ordering::Equal => {
            let frac = f - t; // exact, same sign as f
            if frac > 0.0 {
                Ordering::Less
            } else if frac < 0.0 {
                Ordering::Greater
            } else {
                Ordering::Equal
            }
        }
        o => o,
    }
}

fn cmp_exact(a: &V, b: &V) -> Ordering {
    match (a, b) {
        (V::Int(x), V::Int(y)) => x.cmp(y),
        (V::Float(x), V::Float(y)) => x.0.partial_cmp(&y.0).expect("NaN excluded"),
        (V::Int(x), V::Float(y)) => cmp_int_float(*x, y.0),
        (V::Float(x), V::Int(y)) => cmp_int_float(*y, x.0).reverse(),
        _ => unreachable!(),
    }
}

fn expected(op: usize, o: Ordering) -> bool {
    match op {
        0 => o == Ordering::Less,
        1 => o != Ordering::Greater,
        2 => o == Ordering::Greater,
        _ => o != Ordering::Less,
    }
}

// ------------------------------------------------------------------ rendering

fn lit_text(v: &V) -> String {
    match v {
        V::Int(i) if *i == i64::MIN => "(-9223372036854775807 - 1)".to_string(),
        V::Int(i) if *i < 0 => format!("(-{})", i.unsigned_abs()),
        V::Int(i) => format!("{}", i),
        V::Float(f) => {
            let a = f.0.abs();
            let mut s = format!("{:?}", a);
            if !s.contains('.') {
                // "1e300" -> "1.0e300" (grammar wants digits "." digits)
                match s.find('e') {
                    Some(p) => s.insert_str(p, ".0"),
                    None => s.push_str(".0"),
                }
            }
            if f.0.is_sign_negative() {
                format!("(-{})", s)
            } else {
                s
            }
        }
        _ => unreachable!(),
    }
}

fn operands(c: &Case, field_l: &str, field_r: &str) -> (String, String) {
    match c.shape {
        0 => (field_l.to_string(), field_r.to_string()),
        1 => (field_l.to_string(), lit_text(&c.lit)),
        _ => (lit_text(&c.lit), field_r.to_string()),
    }
}

fn program(c: &Case) -> String {
    let mut s = String::new();
    let (l, r) = operands(c, "x", "y");
    let (pl, pr) = operands(c, "first(events).x", "first(events).y");
    for (name, sym) in OPS {
        s.push_str(&format!("stream W{n} = A.where({l} {o} {r}).emit(id: id)\n", n = name, o = sym, l = l, r = r));
        s.push_str(&format!(
            "stream H{n} = A.window(1).aggregate(id: last(id), x: last(x), y: last(y)).having({l} {o} {r}).emit(id: id)\n",
            n = name,
            o = sym,
            l = l,
            r = r
        ));
        s.push_str(&format!("stream P{n} = A.pattern(p: events => {l} {o} {r}).emit(id: id)\n", n = name, o = sym, l = pl, r = pr));
    }
    s.push_str(&format!("stream Em = A.emit(id: id, lt: {l} < {r}, le: {l} <= {r}, gt: {l} > {r}, ge: {l} >= {r})\n", l = l, r = r));
    s
}

// ------------------------------------------------------------------ judging

#[derive(Debug)]
enum Got {
    True,
    False,
    /// no value / field absent
    Nothing,
}

/// root-cause signature of one wrong evaluation
fn signature(family: &str, a: &V, b: &V, op: usize, got: &Got) -> String {
    let mixed = a.type_tag() != b.type_tag();
    let opgrp = if op == 1 || op == 3 { "le-ge" } else { "lt-gt" };
    if !mixed {
        return format!("{}:same-type-{}:{}", family, if matches!(got, Got::Nothing) { "no-value" } else { "wrong" }, opgrp);
    }
    if matches!(got, Got::Nothing) {
        return format!("{}:mixed-no-value:{}", family, opgrp);
    }
    let big = match (a, b) {
        (V::Int(i), _) | (_, V::Int(i)) => i.unsigned_abs() > (1u64 << 53),
        _ => false,
    };
    if big {
        format!("{}:mixed-wrong-above-2p53", family)
    } else {
        format!("{}:mixed-wrong", family)
    }
}

/// the class recorded as a known finding (eval_binary_op has no Int/Float arms for <= and >=,
/// pinned by the repository's own unit tests); excluded unless `raw`
fn known_excluded(family: &str, a: &V, b: &V, op: usize) -> bool {
    family == "patt" && a.type_tag() != b.type_tag() && (op == 1 || op == 3)
}

fn run(c: &Case) -> Outcome {
    let src = program(c);
    let mut eng = match Eng::new(&src) {
        Ok(e) => e,
        Err(e) => return Outcome::discard(format!("program rejected: {} :: {}", e, src.replace('\n', " | "))),
    };
    let mut fails: Vec<(String, String)> = vec![];
    let mut excluded = 0u32;
    let mut classes: BTreeSet<&'static str> = BTreeSet::new();
    let mut mixed_any = false;

    for (k, (pa, pb)) in c.pairs.iter().enumerate() {
        let (a, b) = match c.shape {
            0 => (pa.clone(), pb.clone()),
            1 => (pa.clone(), c.lit.clone()),
            _ => (c.lit.clone(), pb.clone()),
        };
        let ord = cmp_exact(&a, &b);
        let mixed = a.type_tag() != b.type_tag();
        mixed_any |= mixed;
        if mixed {
            classes.insert("mixed");
            if ord == Ordering::Equal {
                classes.insert("mixed_equal");
            }
            if let (V::Int(i), _) | (_, V::Int(i)) = (&a, &b) {
                if i.unsigned_abs() > (1u64 << 53) {
                    classes.insert("mixed_int_above_2p53");
                }
            }
        }
        for v in [&a, &b] {
            if let V::Float(f) = v {
                if f.0.fract() != 0.0 {
                    classes.insert("fractional");
                }
                if f.0 == 0.0 && f.0.is_sign_negative() {
                    classes.insert("neg_zero");
                }
                if f.0.is_infinite() {
                    classes.insert("infinite");
                }
            }
        }
        let id = k as i64 + 1;
        let ev = Ev::new("A", k as i64).with("id", V::Int(id)).with("x", pa.clone()).with("y", pb.clone());
        let outs: Vec<OutEv> = match eng.process(&ev) {
            Ok(o) => vh_gen::engine::norm(&o),
            Err(e) => return Outcome::fail("engine-error", e),
        };
        let has = |stream: &str| outs.iter().any(|o| o.ty == stream && o.get_int("id") == Some(id));
        let em = outs.iter().find(|o| o.ty == "Em" && o.get_int("id") == Some(id));
        // direct evaluator calls
        let (lx, rx) = {
            use varpulis_core::ast::Expr;
            let lit = |v: &V| match v {
                V::Int(i) => Expr::Int(*i),
                V::Float(f) => Expr::Float(f.0),
                _ => unreachable!(),
            };
            match c.shape {
                0 => (Expr::Ident("x".into()), Expr::Ident("y".into())),
                1 => (Expr::Ident("x".into()), lit(&c.lit)),
                _ => (lit(&c.lit), Expr::Ident("y".into())),
            }
        };
        let event = ev.to_event();
        for (op, (name, _)) in OPS.iter().enumerate() {
            let want = expected(op, ord);
            let binop = [varpulis_core::ast::BinOp::Lt, varpulis_core::ast::BinOp::Le, varpulis_core::ast::BinOp::Gt, varpulis_core::ast::BinOp::Ge][op];
            let as_got = |v: Option<varpulis_core::Value>| match v {
                Some(varpulis_core::Value::Bool(true)) => Got::True,
                Some(varpulis_core::Value::Bool(false)) => Got::False,
                _ => Got::Nothing,
            };
            let filt = |passed: bool| if passed { Got::True } else { Got::False };
            let direct_expr = as_got(varpulis_runtime::engine::eval_filter_expr(
                &varpulis_core::ast::Expr::Binary { op: binop, left: Box::new(lx.clone()), right: Box::new(rx.clone()) },
                &event,
                varpulis_runtime::sequence::SequenceContext::empty(),
            ));
            let direct_patt = as_got(varpulis_runtime::engine::evaluator::eval_binary_op(&binop, &a.to_value(), &b.to_value()));
            let emit_got = match em.and_then(|o| o.get(name)) {
                Some("true") => Got::True,
                Some("false") => Got::False,
                _ => Got::Nothing,
            };
            // (family, context, observed)
            let obs: Vec<(&str, &str, Got)> = vec![
                ("expr", "eval_filter_expr", direct_expr),
                ("expr", ".emit", emit_got),
                ("expr", ".where", filt(has(&format!("W{}", name)))),
                ("expr", ".having", filt(has(&format!("H{}", name)))),
                ("patt", "eval_binary_op", direct_patt),
                ("patt", ".pattern", filt(has(&format!("P{}", name)))),
            ];
            for (family, ctx, got) in obs {
                let ok = matches!((&got, want), (Got::True, true) | (Got::False, false));
                if ok {
                    continue;
                }
                if !c.raw && known_excluded(family, &a, &b, op) {
                    excluded += 1;
                    continue;
                }
                // a filter context cannot tell "no value" from false: attribute via the direct call of the same family
                let sig_got = match (ctx, &got) {
                    (".where" | ".having", Got::False) if family == "expr" => {
                        let d = as_got(varpulis_runtime::engine::eval_filter_expr(
                            &varpulis_core::ast::Expr::Binary { op: binop, left: Box::new(lx.clone()), right: Box::new(rx.clone()) },
                            &event,
                            varpulis_runtime::sequence::SequenceContext::empty(),
                        ));
                        if matches!(d, Got::Nothing) {
                            Got::Nothing
                        } else {
                            got
                        }
                    }
                    (".pattern", Got::True) => {
                        let d = as_got(varpulis_runtime::engine::evaluator::eval_binary_op(&binop, &a.to_value(), &b.to_value()));
                        if matches!(d, Got::Nothing) {
                            Got::Nothing
                        } else {
                            got
                        }
                    }
                    _ => got,
                };
                // .pattern differs although eval_binary_op on the same values is right: the operand expression itself is the problem
                if ctx == ".pattern" {
                    let d = as_got(varpulis_runtime::engine::evaluator::eval_binary_op(&binop, &a.to_value(), &b.to_value()));
                    if matches!((&d, want), (Got::True, true) | (Got::False, false)) {
                        let neg_lit = c.shape != 0 && matches!(&c.lit, V::Int(i) if *i < 0) || matches!(&c.lit, V::Float(f) if c.shape != 0 && f.0.is_sign_negative());
                        fails.push((
                            format!("patt:operand-expression-has-no-value:{}", if neg_lit { "negative-literal" } else { "other" }),
                            format!("{:?} {} {:?} in .pattern (shape {}, literal {:?}): mathematically {}, event kept={:?}; eval_binary_op on the values is right", a, OPS[op].1, b, c.shape, c.lit, want, sig_got),
                        ));
                        continue;
                    }
                }
                fails.push((
                    signature(family, &a, &b, op, &sig_got),
                    format!("{:?} {} {:?} in {}: mathematically {}, observed {:?} (shape {})", a, OPS[op].1, b, ctx, want, sig_got, c.shape),
                ));
            }
        }
        // stated consequence: a >= b  <=>  a > b or numerically equal  (oracle side; holds by construction of `expected`)
        debug_assert_eq!(expected(3, ord), expected(2, ord) || ord == Ordering::Equal);
    }
    if let Some((sig, detail)) = fails.into_iter().min() {
        return Outcome::fail(sig, detail);
    }
    let mut out = Outcome::pass().nontrivial(mixed_any).class(format!("shape{}", c.shape));
    for cl in classes {
        out = out.class(cl);
    }
    out.class_if(excluded > 0, "excluded:patt-mixed-le-ge(known)")
}

// ------------------------------------------------------------------ generator

fn num() -> impl Strategy<Value = V> {
    prop_oneof![
        1 => vh_gen::any_int().prop_map(V::Int),
        1 => vh_gen::any_float().prop_map(|f| if f.is_nan() { V::f(31.5) } else { V::f(f) }),
    ]
}

/// a pair built around one integer: the int against floats at / next to its value
fn near_pair() -> impl Strategy<Value = (V, V)> {
    (vh_gen::any_int(), 0u8..6, any::<bool>(), any::<bool>()).prop_map(|(i, how, swap, both_float)| {
        let f0 = i as f64;
        let f = match how {
            0 => f0,
            1 => f0.next_up(),
            2 => f0.next_down(),
            3 => f0 + 0.5,
            4 => f0 - 0.5,
            _ => -f0,
        };
        let a = if both_float { V::f(f0) } else { V::Int(i) };
        let b = V::f(f);
        if swap {
            (b, a)
        } else {
            (a, b)
        }
    })
}

fn pair() -> impl Strategy<Value = (V, V)> {
    prop_oneof![
        3 => near_pair(),
        2 => (num(), num()),
        1 => (vh_gen::any_int(), vh_gen::any_int()).prop_map(|(a, b)| (V::Int(a), V::Int(b))),
    ]
}

fn strat() -> impl Strategy<Value = Case> {
    (0u8..3, pair(), any::<bool>(), proptest::collection::vec(pair(), 1..5)).prop_map(|(shape, lp, pick, pairs)| {
        let mut lit = if pick { lp.0 } else { lp.1 };
        if let V::Float(f) = &lit {
            if !f.0.is_finite() {
                lit = V::f(9007199254740993.0);
            }
        }
        if lit == V::Int(i64::MIN) {
            // has no literal form (only `-9223372036854775807 - 1`, an arithmetic expression, which the
            // .pattern evaluator does not support at all); i64::MIN still occurs as a field value
            lit = V::Int(i64::MIN + 1);
        }
        Case { shape, lit, pairs, raw: false }
    })
}

fn main() {
    let check = Check::new("C08", "exploration");
    check.rule("operand pairs from int/float boundary pools (2^53+-1, i64 extremes vs neighbouring floats, +-0, fractional, +-inf; NaN excluded), 3/6 of pairs are an integer against the float at/next to its value; operands as field-vs-field, field-vs-literal, literal-vs-field; every pair is judged for all of < <= > >= in .where, .emit, .having (after last()), .pattern through the Engine API and through eval_filter_expr / eval_binary_op directly; oracle = exact order via i128/fraction decomposition; non-trivial = case has a mixed int/float pair");
    check.assume("exact oracle in the harness (trunc/fract decomposition); last() aggregate returns the operand unchanged; VPL literal rendering round-trips (checked: unparsable program = discard)");
    check.explore("contexts", strat, 4_000, 80_000, run);
    check.finish();
}
