use vh_gen::{engine::Eng, Ev};
fn main() {
    let src = std::env::args().nth(1).unwrap();
    let src = std::fs::read_to_string(&src).unwrap();
    let evs: Vec<Ev> = serde_json::from_str(&std::fs::read_to_string(std::env::args().nth(2).unwrap()).unwrap()).unwrap();
    let mut e = match Eng::new(&src) { Ok(e) => e, Err(x) => { println!("ERR {}", x); return; } };
    for ev in &evs {
        let out = e.process(ev).unwrap();
        println!("in {} {:?}", ev.ty, ev.fields);
        for o in out { println!("   out {} {:?}", o.event_type, vh_gen::OutEv::from_event(&o).fields); }
    }
}
