//! Monotone index mapping (shrinks towards the first element, never stalls like `%`).
pub fn pick(i: u16, len: usize) -> usize {
    if len == 0 {
        0
    } else {
        ((i as usize) * len) >> 16
    }
}
pub fn pick_from<T: Clone>(i: u16, xs: &[T]) -> T {
    xs[pick(i, xs.len())].clone()
}
