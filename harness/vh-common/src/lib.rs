//! Shared machinery for the /verif property harnesses.
//!
//! One `Check` per property binary.  A check is made of one or more
//! *sub-checks* (`explore` for generated search, `enumerate` for finite
//! spaces).  Every case is judged by a closure returning an `Outcome`.
//! The runner counts evaluations, distinct non-trivial cases, classes,
//! discards, matches failures against `/verif/known_findings.txt`, shrinks
//! unknown failures (proptest) and writes them as JSON replay files that are
//! re-executed without proptest.
//!
//! Exit codes: 0 held (known findings printed), 1 violation, 2 inconclusive.

use proptest::strategy::{Strategy, ValueTree};
use proptest::test_runner::{Config, RngAlgorithm, TestCaseError, TestError, TestRng, TestRunner};
use serde::de::DeserializeOwned;
use serde::Serialize;
use serde_json::{json, Value as J};
use std::cell::RefCell;
use std::collections::hash_map::DefaultHasher;
use std::collections::{BTreeMap, HashSet};
use std::fmt::Debug;
use std::hash::{Hash, Hasher};
use std::panic::{catch_unwind, AssertUnwindSafe};
use std::path::{Path, PathBuf};
use std::sync::atomic::{AtomicBool, Ordering};
use std::sync::Mutex;
use std::time::Instant;

pub use proptest;
pub use serde;
pub use serde_json;

pub mod idx;

#[derive(Clone, Copy, Debug, PartialEq, Eq)]
pub enum Tier {
    Quick,
    Thorough,
}

#[derive(Clone, Debug)]
enum Mode {
    Search,
    Replay { path: PathBuf, sub: String, case: J },
}

#[derive(Clone, Debug)]
enum Kind {
    Pass,
    Discard(String),
    Fail { sig: String, detail: String },
    /// several independent failures in one case; an unknown one (if any) decides
    FailMany(Vec<(String, String)>),
}

/// Verdict of one case.
#[derive(Clone, Debug)]
pub struct Outcome {
    kind: Kind,
    nontrivial: bool,
    classes: Vec<String>,
}

impl Outcome {
    pub fn pass() -> Self {
        Outcome { kind: Kind::Pass, nontrivial: false, classes: vec![] }
    }
    /// The generator produced a case outside the property's domain (counted, never a violation).
    pub fn discard(reason: impl Into<String>) -> Self {
        Outcome { kind: Kind::Discard(reason.into()), nontrivial: false, classes: vec![] }
    }
    /// Property violated. `sig` is a stable, space-free signature of the root cause class.
    pub fn fail(sig: impl Into<String>, detail: impl Into<String>) -> Self {
        let sig: String = sig.into().chars().map(|c| if c.is_whitespace() { '_' } else { c }).collect();
        Outcome { kind: Kind::Fail { sig, detail: detail.into() }, nontrivial: true, classes: vec![] }
    }
    /// Several independent failures observed in one case (e.g. one per entry point).  The
    /// first one whose signature is not a listed known finding is the reported violation;
    /// known ones are counted.  An empty list is a pass.
    pub fn fail_many(fails: Vec<(String, String)>) -> Self {
        if fails.is_empty() {
            return Outcome::pass();
        }
        let fails = fails.into_iter().map(|(s, d)| (s.chars().map(|c| if c.is_whitespace() { '_' } else { c }).collect(), d)).collect();
        Outcome { kind: Kind::FailMany(fails), nontrivial: true, classes: vec![] }
    }
    pub fn nontrivial(mut self, b: bool) -> Self {
        self.nontrivial = b;
        self
    }
    pub fn class(mut self, c: impl Into<String>) -> Self {
        self.classes.push(c.into());
        self
    }
    pub fn class_if(mut self, cond: bool, c: impl Into<String>) -> Self {
        if cond {
            self.classes.push(c.into());
        }
        self
    }
    pub fn is_fail(&self) -> bool {
        matches!(self.kind, Kind::Fail { .. } | Kind::FailMany(_))
    }
    pub fn is_pass(&self) -> bool {
        matches!(self.kind, Kind::Pass)
    }
    /// all (signature, detail) pairs of a failing outcome
    pub fn fail_list(&self) -> Vec<(String, String)> {
        match &self.kind {
            Kind::Fail { sig, detail } => vec![(sig.clone(), detail.clone())],
            Kind::FailMany(v) => v.clone(),
            _ => vec![],
        }
    }
    pub fn fail_sig(&self) -> Option<&str> {
        match &self.kind {
            Kind::Fail { sig, .. } => Some(sig),
            Kind::FailMany(v) => v.first().map(|x| x.0.as_str()),
            _ => None,
        }
    }
}

// ---------------------------------------------------------------- panics

#[derive(Clone, Debug)]
pub struct PanicInfo {
    pub file: String,
    pub line: u32,
    pub message: String,
}

impl PanicInfo {
    /// Stable signature: file basename + start of message (no line number).
    pub fn sig(&self) -> String {
        let base = self.file.rsplit('/').next().unwrap_or(&self.file);
        let msg: String = self
            .message
            .chars()
            .take(48)
            .map(|c| if c.is_alphanumeric() { c } else { '_' })
            .collect();
        format!("panic@{}:{}", base, msg)
    }
}

thread_local! {
    static LAST_PANIC: RefCell<Option<PanicInfo>> = const { RefCell::new(None) };
}

static HOOK: std::sync::Once = std::sync::Once::new();

pub fn install_panic_hook() {
    HOOK.call_once(|| {
        let verbose = std::env::var("VERIF_PANIC_VERBOSE").is_ok();
        let prev = std::panic::take_hook();
        std::panic::set_hook(Box::new(move |info| {
            let (file, line) = info
                .location()
                .map(|l| (l.file().to_string(), l.line()))
                .unwrap_or_else(|| ("?".into(), 0));
            let message = if let Some(s) = info.payload().downcast_ref::<&str>() {
                s.to_string()
            } else if let Some(s) = info.payload().downcast_ref::<String>() {
                s.clone()
            } else {
                "<non-string panic>".to_string()
            };
            LAST_PANIC.with(|p| *p.borrow_mut() = Some(PanicInfo { file, line, message }));
            if verbose {
                prev(info);
            }
        }));
    });
}

/// Run `f`, turning a panic into `Err(PanicInfo)`.
pub fn guard<R>(f: impl FnOnce() -> R) -> Result<R, PanicInfo> {
    install_panic_hook();
    LAST_PANIC.with(|p| *p.borrow_mut() = None);
    match catch_unwind(AssertUnwindSafe(f)) {
        Ok(r) => Ok(r),
        Err(_) => Err(LAST_PANIC.with(|p| p.borrow_mut().take()).unwrap_or(PanicInfo {
            file: "?".into(),
            line: 0,
            message: "panic without hook info".into(),
        })),
    }
}

// ---------------------------------------------------------------- state

#[derive(Default)]
struct SubStats {
    evaluations: u64,
    nontrivial: HashSet<u64>,
    exhaustive: bool,
    replays: u64,
}

#[derive(Default)]
struct State {
    subs: BTreeMap<String, SubStats>,
    classes: BTreeMap<String, u64>,
    discards: BTreeMap<String, u64>,
    samples: Vec<J>,
    samples_per_sub: BTreeMap<String, usize>,
    known_hits: BTreeMap<String, (u64, String)>,
    violations: Vec<(String, String, String, PathBuf)>, // sub, sig, detail, replay path
    extra: BTreeMap<String, J>,
    inconclusive: Vec<String>,
    /// triage mode (VERIF_COLLECT=1): unknown signatures with count and first detail, search does not stop
    collected: BTreeMap<String, (u64, String)>,
}

pub struct Check {
    pub id: String,
    pub tier: Tier,
    pub seed: u64,
    pub verif_dir: PathBuf,
    mode: Mode,
    level: &'static str,
    rule: Mutex<String>,
    assumptions: Mutex<Vec<String>>,
    known: Vec<(String, String)>,
    state: Mutex<State>,
    stop: AtomicBool,
    start: Instant,
    threads: usize,
}

fn collect_mode() -> bool {
    static M: std::sync::OnceLock<bool> = std::sync::OnceLock::new();
    *M.get_or_init(|| std::env::var("VERIF_COLLECT").is_ok())
}

pub fn hash_str(s: &str) -> u64 {
    let mut h = DefaultHasher::new();
    s.hash(&mut h);
    h.finish()
}

fn verif_dir() -> PathBuf {
    std::env::var("VERIF_DIR").map(PathBuf::from).unwrap_or_else(|_| PathBuf::from("/verif"))
}

impl Check {
    /// `level`: one of exploration | fault_enumeration | translation_validation | other.
    /// Args (from run.sh): `<quick|thorough>` or `replay <file>`.
    pub fn new(id: &str, level: &'static str) -> Check {
        install_panic_hook();
        let args: Vec<String> = std::env::args().collect();
        let verif_dir = verif_dir();
        let mut tier = match std::env::var("VERIF_TIER").as_deref() {
            Ok("thorough") => Tier::Thorough,
            _ => Tier::Quick,
        };
        let mut mode = Mode::Search;
        match args.get(1).map(|s| s.as_str()) {
            Some("quick") => tier = Tier::Quick,
            Some("thorough") => tier = Tier::Thorough,
            Some("replay") => {
                let path = PathBuf::from(args.get(2).expect("replay <file>"));
                let txt = std::fs::read_to_string(&path).unwrap_or_else(|e| {
                    eprintln!("cannot read replay {}: {}", path.display(), e);
                    std::process::exit(2)
                });
                let v: J = serde_json::from_str(&txt).unwrap_or_else(|e| {
                    eprintln!("replay file is not JSON: {}", e);
                    std::process::exit(2)
                });
                let sub = v["sub"].as_str().unwrap_or("").to_string();
                mode = Mode::Replay { path, sub, case: v["case"].clone() };
            }
            _ => {}
        }
        let seed = std::env::var("VERIF_SEED").ok().and_then(|s| s.trim().parse::<i128>().ok()).map(|v| v as u64).unwrap_or(20260921);
        let threads = std::env::var("VERIF_THREADS")
            .ok()
            .and_then(|s| s.parse().ok())
            .unwrap_or(match tier {
                Tier::Quick => 8,
                Tier::Thorough => 16,
            });
        let mut known = load_known(&verif_dir.join("known_findings.txt"), id);
        // development-time staging area (merged into known_findings.txt before commit)
        if let Ok(rd) = std::fs::read_dir(verif_dir.join("known.d")) {
            let mut ps: Vec<_> = rd.filter_map(|e| e.ok().map(|e| e.path())).collect();
            ps.sort();
            for p in ps {
                known.extend(load_known(&p, id));
            }
        }
        // watchdog: a stuck run is inconclusive (exit 2), never a violation
        let budget: u64 = std::env::var("VERIF_WATCHDOG_S").ok().and_then(|s| s.parse().ok()).unwrap_or(match tier {
            Tier::Quick => 1500,
            Tier::Thorough => 6 * 3600,
        });
        let idc = id.to_string();
        std::thread::spawn(move || {
            std::thread::sleep(std::time::Duration::from_secs(budget));
            println!("INCONCLUSIVE property={} watchdog after {}s", idc, budget);
            std::process::exit(2);
        });
        Check {
            id: id.to_string(),
            tier,
            seed,
            verif_dir,
            mode,
            level,
            rule: Mutex::new(String::new()),
            assumptions: Mutex::new(vec![]),
            known,
            state: Mutex::new(State::default()),
            stop: AtomicBool::new(false),
            start: Instant::now(),
            threads,
        }
    }

    pub fn is_thorough(&self) -> bool {
        self.tier == Tier::Thorough
    }
    pub fn is_replay(&self) -> bool {
        matches!(self.mode, Mode::Replay { .. })
    }
    /// pick a size by tier
    pub fn pick<T>(&self, quick: T, thorough: T) -> T {
        match self.tier {
            Tier::Quick => quick,
            Tier::Thorough => thorough,
        }
    }
    pub fn rule(&self, r: &str) {
        *self.rule.lock().unwrap() = r.to_string();
    }
    pub fn assume(&self, a: &str) {
        self.assumptions.lock().unwrap().push(a.to_string());
    }
    pub fn extra(&self, k: &str, v: J) {
        self.state.lock().unwrap().extra.insert(k.to_string(), v);
    }
    pub fn inconclusive(&self, why: impl Into<String>) {
        self.state.lock().unwrap().inconclusive.push(why.into());
    }
    pub fn threads(&self) -> usize {
        self.threads
    }

    fn is_known(&self, sig: &str) -> Option<&str> {
        self.known.iter().find(|(s, _)| s == sig).map(|(_, t)| t.as_str())
    }

    /// Judge one case, record statistics.  Returns Some((sig, detail)) for an *unknown* failure.
    fn judge<T: Serialize>(&self, sub: &str, case: &T, f: &(dyn Fn(&T) -> Outcome + Sync), count: bool) -> Option<(String, String)> {
        let out = match guard(|| f(case)) {
            Ok(o) => o,
            Err(p) => Outcome::fail(p.sig(), format!("panic at {}:{}: {}", p.file, p.line, p.message)),
        };
        let mut st = self.state.lock().unwrap();
        if count {
            let ss = st.subs.entry(sub.to_string()).or_default();
            ss.evaluations += 1;
            if out.nontrivial && !matches!(out.kind, Kind::Discard(_)) {
                let enc = serde_json::to_string(case).unwrap_or_default();
                let h = hash_str(&enc);
                let fresh = ss.nontrivial.insert(h);
                if fresh && out.is_pass() {
                    let n = st.samples_per_sub.entry(sub.to_string()).or_insert(0);
                    if *n < 3 {
                        *n += 1;
                        let cj = serde_json::to_value(case).unwrap_or(J::Null);
                        st.samples.push(json!({"sub": sub, "case": cj, "classes": out.classes}));
                    }
                }
            }
            for c in &out.classes {
                *st.classes.entry(c.clone()).or_insert(0) += 1;
            }
        }
        match out.kind {
            Kind::Pass => None,
            Kind::Discard(r) => {
                if count {
                    *st.discards.entry(r).or_insert(0) += 1;
                }
                None
            }
            Kind::Fail { sig, detail } => {
                if let Some(text) = self.is_known(&sig) {
                    self.save_known(sub, case, &sig);
                    if count {
                        let e = st.known_hits.entry(sig.clone()).or_insert((0, text.to_string()));
                        e.0 += 1;
                    }
                    None
                } else if collect_mode() {
                    let e = st.collected.entry(sig).or_insert((0, detail));
                    e.0 += 1;
                    None
                } else {
                    Some((sig, detail))
                }
            }
            Kind::FailMany(fails) => {
                let mut unknown = None;
                for (sig, detail) in fails {
                    if let Some(text) = self.is_known(&sig) {
                        self.save_known(sub, case, &sig);
                        if count {
                            let e = st.known_hits.entry(sig.clone()).or_insert((0, text.to_string()));
                            e.0 += 1;
                        }
                    } else if collect_mode() {
                        let e = st.collected.entry(sig).or_insert((0, detail));
                        e.0 += 1;
                    } else if unknown.is_none() {
                        unknown = Some((sig, detail));
                    }
                }
                unknown
            }
        }
    }

    /// development aid (VERIF_SAVE_KNOWN=1): keep the first case that hits each known finding as a
    /// committed replay so that every later run exercises the finding.
    fn save_known<T: Serialize>(&self, sub: &str, case: &T, sig: &str) {
        if std::env::var("VERIF_SAVE_KNOWN").is_err() || self.is_replay() {
            return;
        }
        let dir = self.verif_dir.join("replays").join(&self.id);
        let _ = std::fs::create_dir_all(&dir);
        let clean: String = sig.chars().map(|c| if c.is_alphanumeric() || c == '-' { c } else { '_' }).collect();
        let p = dir.join(format!("known-{}.json", clean));
        if !p.exists() {
            let body = json!({"property": self.id, "sub": sub, "note": format!("first generated case hitting known finding {}", sig), "case": case});
            let _ = std::fs::write(&p, serde_json::to_string(&body).unwrap());
        }
    }

    fn record_violation<T: Serialize>(&self, sub: &str, case: &T, sig: &str, detail: &str, existing: Option<&Path>) {
        let path = match existing {
            Some(p) => p.to_path_buf(),
            None => {
                let dir = self.verif_dir.join("found").join(&self.id);
                let _ = std::fs::create_dir_all(&dir);
                let body = json!({"property": self.id, "sub": sub, "sig": sig, "detail": detail, "seed": self.seed, "case": case});
                let txt = serde_json::to_string_pretty(&body).unwrap();
                let p = dir.join(format!("{}-{:016x}.json", sub, hash_str(&txt)));
                let _ = std::fs::write(&p, txt);
                p
            }
        };
        let mut st = self.state.lock().unwrap();
        st.violations.push((sub.to_string(), sig.to_string(), detail.to_string(), path));
    }

    /// Replay the committed regression inputs of this sub-check.  Returns false when in
    /// explicit replay mode (then no search is done).
    fn run_replays<T: Serialize + DeserializeOwned>(&self, sub: &str, f: &(dyn Fn(&T) -> Outcome + Sync)) -> bool {
        if let Mode::Replay { path, sub: rsub, case } = &self.mode {
            if rsub == sub {
                match serde_json::from_value::<T>(case.clone()) {
                    Ok(c) => {
                        if let Some((sig, detail)) = self.judge(sub, &c, f, true) {
                            println!("replay {}: FAIL sig={} {}", path.display(), sig, detail);
                            self.record_violation(sub, &c, &sig, &detail, Some(path));
                        } else {
                            println!("replay {}: no unknown violation", path.display());
                        }
                    }
                    Err(e) => {
                        self.inconclusive(format!("replay file does not decode for sub {}: {}", sub, e));
                    }
                }
            }
            return false;
        }
        let dir = self.verif_dir.join("replays").join(&self.id);
        let mut files: Vec<PathBuf> = std::fs::read_dir(&dir)
            .map(|rd| rd.filter_map(|e| e.ok().map(|e| e.path())).filter(|p| p.extension().map(|x| x == "json").unwrap_or(false)).collect())
            .unwrap_or_default();
        files.sort();
        for p in files {
            let Ok(txt) = std::fs::read_to_string(&p) else { continue };
            let Ok(v) = serde_json::from_str::<J>(&txt) else {
                self.inconclusive(format!("replay {} is not JSON", p.display()));
                continue;
            };
            if v["sub"].as_str() != Some(sub) {
                continue;
            }
            match serde_json::from_value::<T>(v["case"].clone()) {
                Ok(c) => {
                    self.state.lock().unwrap().subs.entry(sub.to_string()).or_default().replays += 1;
                    if let Some((sig, detail)) = self.judge(sub, &c, f, true) {
                        self.record_violation(sub, &c, &sig, &detail, Some(&p));
                        self.stop.store(true, Ordering::SeqCst);
                    }
                }
                Err(e) => self.inconclusive(format!("replay {} does not decode: {}", p.display(), e)),
            }
        }
        true
    }

    /// Generated search: `cases` cases split over the worker threads, each thread an
    /// independent proptest runner seeded from (VERIF_SEED, sub, thread index).
    pub fn explore<T, S>(&self, sub: &str, strategy: impl Fn() -> S + Sync, cases_quick: u32, cases_thorough: u32, f: impl Fn(&T) -> Outcome + Sync)
    where
        T: Serialize + DeserializeOwned + Debug + Clone,
        S: Strategy<Value = T>,
    {
        self.state.lock().unwrap().subs.entry(sub.to_string()).or_default();
        let f: &(dyn Fn(&T) -> Outcome + Sync) = &f;
        if !self.run_replays(sub, f) {
            return;
        }
        let scale: f64 = std::env::var("VERIF_SCALE").ok().and_then(|s| s.parse().ok()).unwrap_or(1.0);
        let cases = ((self.pick(cases_quick, cases_thorough) as f64) * scale).ceil() as u32;
        let threads = self.threads.max(1).min(cases.max(1) as usize);
        let per = cases.div_ceil(threads as u32);
        let strategy = &strategy;
        std::thread::scope(|sc| {
            for ti in 0..threads {
                let builder = std::thread::Builder::new().stack_size(64 << 20);
                builder
                    .spawn_scoped(sc, move || {
                        let mut seed = [0u8; 32];
                        seed[..8].copy_from_slice(&self.seed.to_le_bytes());
                        seed[8..16].copy_from_slice(&hash_str(sub).to_le_bytes());
                        seed[16..24].copy_from_slice(&(ti as u64).to_le_bytes());
                        seed[24..32].copy_from_slice(&hash_str(&self.id).to_le_bytes());
                        let rng = TestRng::from_seed(RngAlgorithm::ChaCha, &seed);
                        let cfg = Config {
                            cases: per,
                            failure_persistence: None,
                            max_shrink_iters: std::env::var("VERIF_SHRINK_ITERS").ok().and_then(|s| s.parse().ok()).unwrap_or(1500),
                            max_global_rejects: 1_000_000,
                            ..Config::default()
                        };
                        let mut runner = TestRunner::new_with_rng(cfg, rng);
                        let failed = std::cell::Cell::new(false);
                        let strat = strategy();
                        let res = runner.run(&strat, |case| {
                            if self.stop.load(Ordering::Relaxed) && !failed.get() {
                                return Ok(());
                            }
                            match self.judge(sub, &case, f, !failed.get()) {
                                None => Ok(()),
                                Some((sig, _)) => {
                                    if !failed.get() {
                                        // only the first thread that finds an unknown failure shrinks it
                                        if self.stop.swap(true, Ordering::SeqCst) {
                                            return Ok(());
                                        }
                                        failed.set(true);
                                    }
                                    Err(TestCaseError::fail(sig))
                                }
                            }
                        });
                        match res {
                            Ok(()) => {}
                            Err(TestError::Fail(_, shrunk)) => {
                                // re-judge the shrunk case outside proptest
                                let again = self.judge(sub, &shrunk, f, false);
                                let (sig, detail) = again.unwrap_or(("flaky".into(), "shrunk case passed when re-run (non-deterministic harness?)".into()));
                                self.record_violation(sub, &shrunk, &sig, &detail, None);
                                self.stop.store(true, Ordering::SeqCst);
                            }
                            Err(TestError::Abort(why)) => {
                                self.inconclusive(format!("{}: proptest aborted: {}", sub, why));
                            }
                        }
                    })
                    .unwrap();
            }
        });
    }

    /// Exhaustive enumeration of a finite space (also replayable).
    pub fn enumerate<T>(&self, sub: &str, items: Vec<T>, f: impl Fn(&T) -> Outcome + Sync)
    where
        T: Serialize + DeserializeOwned + Debug + Clone + Sync,
    {
        self.state.lock().unwrap().subs.entry(sub.to_string()).or_default();
        let f: &(dyn Fn(&T) -> Outcome + Sync) = &f;
        if !self.run_replays(sub, f) {
            return;
        }
        let threads = self.threads.max(1);
        let chunk = items.len().div_ceil(threads).max(1);
        let complete = AtomicBool::new(true);
        std::thread::scope(|sc| {
            for part in items.chunks(chunk) {
                let complete = &complete;
                std::thread::Builder::new()
                    .stack_size(64 << 20)
                    .spawn_scoped(sc, move || {
                        for case in part {
                            if self.stop.load(Ordering::Relaxed) {
                                complete.store(false, Ordering::SeqCst);
                                return;
                            }
                            if let Some((sig, detail)) = self.judge(sub, case, f, true) {
                                self.record_violation(sub, case, &sig, &detail, None);
                                self.stop.store(true, Ordering::SeqCst);
                                complete.store(false, Ordering::SeqCst);
                                return;
                            }
                        }
                    })
                    .unwrap();
            }
        });
        if complete.load(Ordering::SeqCst) {
            self.state.lock().unwrap().subs.get_mut(sub).unwrap().exhaustive = true;
        }
    }

    /// Generate `n` values of a strategy deterministically (for harnesses that drive
    /// their own loops, e.g. process-spawning or multi-threaded cases).
    pub fn generate<T: Debug, S: Strategy<Value = T>>(&self, sub: &str, strategy: &S, n: usize) -> Vec<T> {
        let mut seed = [0u8; 32];
        seed[..8].copy_from_slice(&self.seed.to_le_bytes());
        seed[8..16].copy_from_slice(&hash_str(sub).to_le_bytes());
        seed[24..32].copy_from_slice(&hash_str(&self.id).to_le_bytes());
        let rng = TestRng::from_seed(RngAlgorithm::ChaCha, &seed);
        let mut runner = TestRunner::new_with_rng(Config { failure_persistence: None, ..Config::default() }, rng);
        (0..n).filter_map(|_| strategy.new_tree(&mut runner).ok().map(|t| t.current())).collect()
    }

    /// Write evidence, print verdict lines, exit.
    pub fn finish(self) -> ! {
        let wall = self.start.elapsed().as_secs_f64();
        let st = self.state.lock().unwrap();
        let evaluations: u64 = st.subs.values().map(|s| s.evaluations).sum();
        let distinct: usize = st.subs.values().map(|s| s.nontrivial.len()).sum();
        let all_exh = !st.subs.is_empty() && st.subs.values().all(|s| s.exhaustive);
        let subs: BTreeMap<&String, J> = st
            .subs
            .iter()
            .map(|(k, s)| (k, json!({"evaluations": s.evaluations, "distinct_nontrivial": s.nontrivial.len(), "exhaustive": s.exhaustive, "committed_replays_run": s.replays})))
            .collect();
        let known_hits: BTreeMap<&String, J> = st.known_hits.iter().map(|(k, (n, t))| (k, json!({"hits": n, "text": t}))).collect();
        let mut coverage = json!({
            "evaluations": evaluations,
            "distinct_nontrivial": distinct,
            "rule": *self.rule.lock().unwrap(),
            "samples": st.samples,
            "exhaustive": all_exh,
            "sub_checks": subs,
            "classes": st.classes,
            "discards": st.discards,
            "known_finding_hits": known_hits,
            "threads": self.threads,
        });
        for (k, v) in &st.extra {
            coverage[k] = v.clone();
        }
        let evidence = json!({
            "property_id": self.id,
            "tier": match self.tier { Tier::Quick => "quick", Tier::Thorough => "thorough" },
            "seed": (self.seed & (i64::MAX as u64)),
            "level": self.level,
            "coverage": coverage,
            "assumptions": *self.assumptions.lock().unwrap(),
            "wall_s": wall,
            "violations": st.violations.len(),
        });
        if !self.is_replay() {
            let dir = self.verif_dir.join("evidence");
            let _ = std::fs::create_dir_all(&dir);
            let _ = std::fs::write(dir.join(format!("{}.json", self.id)), serde_json::to_string_pretty(&evidence).unwrap());
        }
        println!(
            "[{}] tier={:?} seed={} evaluations={} distinct_nontrivial={} wall={:.1}s",
            self.id, self.tier, self.seed, evaluations, distinct, wall
        );
        for (k, s) in &st.subs {
            println!("  sub {:<28} evals={:<8} nontrivial={:<8}{}", k, s.evaluations, s.nontrivial.len(), if s.exhaustive { " exhaustive" } else { "" });
        }
        if !st.classes.is_empty() {
            let cl: Vec<String> = st.classes.iter().map(|(k, v)| format!("{}={}", k, v)).collect();
            println!("  classes: {}", cl.join(" "));
        }
        if !st.discards.is_empty() {
            let cl: Vec<String> = st.discards.iter().map(|(k, v)| format!("{}={}", k, v)).collect();
            println!("  discards: {}", cl.join(" "));
        }
        for (sig, (n, text)) in &st.known_hits {
            println!("KNOWN-FINDING: property={} sig={} hits={} {}", self.id, sig, n, text);
        }
        let mut code = 0;
        if !st.collected.is_empty() {
            for (sig, (n, d)) in &st.collected {
                println!("COLLECTED sig={} count={} first: {}", sig, n, truncate(d, 1200));
            }
            code = 1;
        }
        if !st.inconclusive.is_empty() {
            for w in &st.inconclusive {
                println!("INCONCLUSIVE property={} {}", self.id, w);
            }
            code = 2;
        }
        if !st.violations.is_empty() {
            let mut seen = HashSet::new();
            for (sub, sig, detail, path) in &st.violations {
                if seen.insert((sub.clone(), sig.clone())) {
                    println!("  violation sub={} sig={} detail={}", sub, sig, truncate(detail, 1500));
                    println!("VIOLATION property={} replay={}", self.id, path.display());
                }
            }
            code = 1;
        } else if code == 0 && !self.is_replay() && distinct < 2 {
            println!("INCONCLUSIVE property={} fewer than 2 distinct non-trivial cases (generator too weak)", self.id);
            code = 2;
        }
        drop(st);
        std::process::exit(code);
    }
}

pub fn truncate(s: &str, n: usize) -> String {
    if s.len() <= n {
        s.to_string()
    } else {
        let mut end = n;
        while !s.is_char_boundary(end) {
            end -= 1;
        }
        format!("{}…", &s[..end])
    }
}

fn load_known(path: &Path, id: &str) -> Vec<(String, String)> {
    let mut out = vec![];
    let Ok(txt) = std::fs::read_to_string(path) else { return out };
    for line in txt.lines() {
        let line = line.trim();
        let Some(rest) = line.strip_prefix("known:") else { continue };
        let mut prop = None;
        let mut sig = None;
        let mut text = vec![];
        for tok in rest.split_whitespace() {
            if prop.is_none() && tok.starts_with("property=") {
                prop = Some(tok["property=".len()..].to_string());
            } else if sig.is_none() && tok.starts_with("sig=") {
                sig = Some(tok["sig=".len()..].to_string());
            } else {
                text.push(tok);
            }
        }
        if prop.as_deref() == Some(id) {
            if let Some(s) = sig {
                out.push((s, text.join(" ")));
            }
        }
    }
    out
}
