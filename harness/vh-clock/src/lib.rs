//! Virtual monotonic clock over the UNMODIFIED production code.
//!
//! `vh_clock::install!();` (at the top level of the harness *binary* crate) defines the
//! process's `clock_gettime` symbol; the statically linked std resolves `Instant::now()`
//! to it.  It forwards to the raw syscall and adds a *per-thread* offset for the monotonic
//! clocks, so parallel proptest worker threads each own an independent virtual clock
//! (the code under test must run on the thread that advances the clock: sync code or a
//! tokio current-thread runtime).  `SystemTime`/`Utc::now()` are untouched.
//!
//! `advance(d)` moves this thread's `Instant::now()` forward by exactly `d`;
//! `self_test()` verifies the interposition is active (harnesses call it first and exit 2
//! otherwise).

pub use libc;
use std::cell::Cell;
use std::time::{Duration, Instant};

thread_local! {
    pub static OFFSET_NS: Cell<i64> = const { Cell::new(0) };
}

#[macro_export]
macro_rules! install {
    () => {
        #[no_mangle]
        pub unsafe extern "C" fn clock_gettime(clk: $crate::libc::clockid_t, ts: *mut $crate::libc::timespec) -> $crate::libc::c_int {
            let r = $crate::libc::syscall($crate::libc::SYS_clock_gettime, clk as $crate::libc::c_long, ts) as $crate::libc::c_int;
            if r == 0 && (clk == $crate::libc::CLOCK_MONOTONIC || clk == $crate::libc::CLOCK_MONOTONIC_RAW || clk == $crate::libc::CLOCK_BOOTTIME || clk == $crate::libc::CLOCK_MONOTONIC_COARSE) {
                let off = $crate::OFFSET_NS.try_with(|c| c.get()).unwrap_or(0);
                if off != 0 {
                    let total = (*ts).tv_sec as i128 * 1_000_000_000 + (*ts).tv_nsec as i128 + off as i128;
                    (*ts).tv_sec = (total / 1_000_000_000) as $crate::libc::time_t;
                    (*ts).tv_nsec = (total % 1_000_000_000) as $crate::libc::c_long;
                }
            }
            r
        }
    };
}

/// Advance this thread's monotonic clock.
pub fn advance(d: Duration) {
    OFFSET_NS.with(|c| c.set(c.get() + d.as_nanos() as i64));
}

pub fn advance_ms(ms: u64) {
    advance(Duration::from_millis(ms));
}

/// Total virtual offset of this thread.
pub fn offset() -> Duration {
    Duration::from_nanos(OFFSET_NS.with(|c| c.get()) as u64)
}

/// true iff `Instant::now()` follows `advance`.
pub fn self_test() -> bool {
    let a = Instant::now();
    advance(Duration::from_secs(3600));
    let b = Instant::now();
    let d = b.duration_since(a);
    d >= Duration::from_secs(3600) && d < Duration::from_secs(3601)
}
