//! Helper crate for harnesses that use varpulis-cli / varpulis-cluster.  Depending on it
//! pins the cluster feature set (raft, persistent) so that every such harness shares one
//! build of the cluster and cli crates.
pub use varpulis_cli;
pub use varpulis_cluster;
pub use varpulis_runtime;
