#!/usr/bin/env python3
"""Regenerates MANIFEST.json from the table below (keeps it schema-valid at all times)."""
import json, os, subprocess
HERE = os.path.dirname(os.path.abspath(__file__))
props = [json.loads(l) for l in open(os.path.join(HERE, "properties.jsonl"))]
ids = [p["id"] for p in props]

# id -> (category, technique, level text, level note, design ref)
CHECKS = {}
def reg(id, cat, technique, text, note):
    CHECKS[id] = dict(cat=cat, technique=technique, text=text, note=note)

exec(open(os.path.join(HERE, "checks_table.py")).read())
import glob
for f in sorted(glob.glob(os.path.join(HERE, "checks_table.d", "*.py"))):
    exec(open(f).read())

NOT_YET = "harness not built yet in this session (planned in DESIGN.md section 3)"
NA = {}
if os.path.exists(os.path.join(HERE, "not_applicable.json")):
    NA = json.load(open(os.path.join(HERE, "not_applicable.json")))

hooks_commits = []
hc = os.path.join(HERE, "hook_commits.txt")
if os.path.exists(hc):
    hooks_commits = [l.split()[0] for l in open(hc) if l.strip() and not l.startswith("#")]

checks = []
for id in ids:
    if id not in CHECKS or not os.path.isdir(os.path.join(HERE, "harness", "props", id.lower())):
        continue
    c = CHECKS[id]
    checks.append({
        "property_id": id,
        "quick_cmd": f"./run.sh {id} quick",
        "thorough_cmd": f"./run.sh {id} thorough",
        "evidence_file": f"/verif/evidence/{id}.json",
        "replay_cmd_template": f"./run.sh {id} replay {{path}}",
        "engine": "vh-proptest",
        "level_claimed": {"category": c["cat"], "text": c["text"], "design_ref": f"DESIGN.md section 3, {id}"},
        "level_note": c["note"],
        "technique": c["technique"],
    })
claimed = {c["property_id"] for c in checks}
manifest = {
    "version": 1,
    "setup_cmd": "./setup.sh",
    "hooks": {
        "guard": "--cfg varpulis_verif",
        "enable": "RUSTFLAGS='--cfg varpulis_verif' (set in /verif/harness/.cargo/config.toml; every harness crate is built through it)",
        "baseline_off_cmd": "cd /repo && (cargo nextest run --workspace --no-fail-fast --test-threads 8 --offline || cargo test --workspace --no-fail-fast --offline)",
        "source_commits": hooks_commits,
        "add_only": True,
    },
    "engines": [{
        "name": "vh-proptest",
        "path": "/verif/harness",
        "serves_properties": sorted(claimed),
        "kind_free_text": "cargo workspace of one harness binary per property (props/cNN), built against /repo/crates/* by path; proptest-driven generated search with explicit oracles, shrinking, JSON replay files, known-finding matching (vh-common)",
    }],
    "checks": checks,
    "notes": "All checks: ./run.sh <ID> quick|thorough|replay <file>. Exit 0 held / 1 VIOLATION / 2 inconclusive. Known findings in /verif/known_findings.txt (64 known findings, 47 fixed-defect entries, 46 fix: commits). Hook code is additive; one bookkeeping blemish: hook commit 668f76e (H2 payload extension, rewrites two earlier hook statements) also carries the two production lines of fix 40c357f in sase.rs values_compare, because two agents staged the same file concurrently (see DESIGN.md 7.1). Thorough tier of C20/C41/C43/C46 additionally runs a libFuzzer campaign (tools/fuzz.sh).",
    "not_applicable": [{"property_id": id, "reason": NA.get(id, NOT_YET)} for id in ids if id not in claimed],
}
json.dump(manifest, open(os.path.join(HERE, "MANIFEST.json"), "w"), indent=1)
print(f"MANIFEST.json: {len(checks)} checks, {len(manifest['not_applicable'])} not_applicable")
try:
    import jsonschema
    jsonschema.validate(manifest, json.load(open("/root/.vp/MANIFEST.schema.json")))
    print("schema ok")
except ImportError:
    pass
